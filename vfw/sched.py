"""Stateless, preemption-bounded exploration of real threads (CHESS style) for the Vizier servicer.

Each concurrent RPC runs in its own OS thread, but only the baton holder runs.  Scheduling points:
every acquisition of a servicer lock (the three lock tables are replaced by tables of `SLock`) and every
datastore method entry (the servicer's `datastore` attribute is wrapped by `DSProxy`).  A thread waiting
for a held SLock is *disabled*; no enabled thread while some are unfinished = deadlock.
"""
import collections
import threading

HORIZON = 600


class Deadlock(Exception):
  pass


class Horizon(Exception):
  pass


class Sched:
  def __init__(self, choices):
    self.choices = list(choices)
    self.i = 0
    self.trace = []
    self.threads = {}
    self.cur = None
    self.main = threading.Semaphore(0)
    self.points = []  # per decision: (n_enabled, chosen_index, running_still_enabled)

  def spawn(self, tid, fn):
    sem = threading.Semaphore(0)
    st = {'sem': sem, 'done': False, 'blocked_on': None, 'res': None}

    def run():
      sem.acquire()
      try:
        st['res'] = fn()
      except BaseException as e:  # pylint: disable=broad-except
        st['res'] = ('THREAD-EXC', type(e).__name__, str(e)[:200])
      st['done'] = True
      self.main.release()

    th = threading.Thread(target=run, daemon=True)
    st['th'] = th
    self.threads[tid] = st
    th.start()

  def point(self, what):
    tid = self.cur
    st = self.threads[tid]
    self.trace.append((tid, what))
    self.main.release()
    st['sem'].acquire()

  def enabled(self):
    return [t for t, s in self.threads.items()
            if not s['done'] and (s['blocked_on'] is None or not s['blocked_on'].held)]

  def run(self):
    while True:
      en = self.enabled()
      if not en:
        if all(s['done'] for s in self.threads.values()):
          return
        raise Deadlock([t for t, s in self.threads.items() if not s['done']])
      if len(self.points) > HORIZON:
        raise Horizon()
      still = self.cur in en
      order = ([self.cur] if still else []) + sorted(t for t in en if t != self.cur)
      if self.i < len(self.choices):
        c = self.choices[self.i]
        if c >= len(order):
          raise RuntimeError('schedule prefix diverged: choice %d of %d at point %d' % (c, len(order), self.i))
      else:
        c = 0
      self.i += 1
      self.points.append((len(order), c, still))
      self.cur = order[c]
      self.threads[self.cur]['sem'].release()
      self.main.acquire()


class SLock:
  """Lock whose acquisition is a scheduling point; a held lock disables its waiters."""
  sched = None

  def __init__(self):
    self.held = False

  def __enter__(self):
    s = SLock.sched
    if s is None or s.cur is None:   # sequential use (prefix / serial reference runs)
      if self.held:
        raise RuntimeError('SLock re-entered sequentially: self-deadlock')
      self.held = True
      return self
    s.point('acquire')
    st = s.threads[s.cur]
    while self.held:
      st['blocked_on'] = self
      s.point('blocked')
    st['blocked_on'] = None
    self.held = True
    return self

  def __exit__(self, *a):
    self.held = False

  def acquire(self, *a, **k):
    self.__enter__()
    return True

  def release(self):
    self.held = False


class DSProxy:
  """Datastore wrapper: every method entry is a scheduling point."""

  def __init__(self, real):
    self.__dict__['_r'] = real
    self.__dict__['created'] = []   # names of trials created since the list was last cleared

  def __getattr__(self, n):
    f = getattr(self._r, n)
    if not callable(f) or n.startswith('_'):
      return f

    def w(*a, **k):
      if n == 'create_trial' and a:
        self.__dict__['created'].append(getattr(a[0], 'name', ''))
      if SLock.sched is not None and SLock.sched.cur is not None:
        tag = 'ds.' + n
        if n in ('create_trial', 'delete_trial', 'update_trial') and a:
          tag += ':' + (a[0] if isinstance(a[0], str) else getattr(a[0], 'name', ''))
        SLock.sched.point(tag)
      return f(*a, **k)
    return w

  def __setattr__(self, n, v):
    setattr(self._r, n, v)


def instrument(servicer):
  servicer._study_name_to_lock = collections.defaultdict(SLock)
  servicer._operation_lock = collections.defaultdict(SLock)
  servicer._owner_name_to_lock = collections.defaultdict(SLock)
  if not isinstance(servicer.datastore, DSProxy):
    servicer.datastore = DSProxy(servicer.datastore)


def reset_locks(servicer):
  servicer._study_name_to_lock = collections.defaultdict(SLock)
  servicer._operation_lock = collections.defaultdict(SLock)
  servicer._owner_name_to_lock = collections.defaultdict(SLock)


def run_schedule(bodies, choices):
  """bodies: list of callables. Returns (results per thread, points, trace) or raises Deadlock/Horizon."""
  s = Sched(choices)
  SLock.sched = s
  try:
    for i, fn in enumerate(bodies):
      s.spawn(i, fn)
    s.run()
  finally:
    SLock.sched = None  # parked threads of a deadlocked / cut-off run stay parked (daemon threads)
  return [s.threads[i]['res'] for i in range(len(bodies))], s.points, s.trace


def preemptions(points, upto):
  return sum(1 for (n, c, still) in points[:upto] if still and c != 0)


def explore(execute, bound, on_result, max_schedules=None):
  """Iterative DFS over choice prefixes with at most `bound` preemptions.

  execute(choices) -> (outcome, points). on_result(choices_taken, outcome). Returns number of schedules.
  """
  n = 0
  stack = [[]]
  while stack:
    prefix = stack.pop()
    outcome, points = execute(prefix)
    n += 1
    taken = [c for (_, c, _) in points]
    on_result(taken, outcome)
    if max_schedules and n >= max_schedules:
      return n, True
    for i in range(len(prefix), len(points)):
      nen, _, still = points[i]
      base = preemptions(points, i)
      for alt in range(1, nen):
        cost = base + (1 if still else 0)
        if cost > bound:
          continue
        stack.append(taken[:i] + [alt])
  return n, False
