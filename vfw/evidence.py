"""Schema-validated evidence writer. Counts are always passed in by the check from what it measured."""
import json
import os
import time

VERIF = os.path.dirname(os.path.dirname(os.path.abspath(__file__)))
SCHEMA = '/root/.vp/EVIDENCE.schema.json'
SCHEMA_COPY = os.path.join(VERIF, 'vfw', 'EVIDENCE.schema.json')


def _schema():
  for p in (SCHEMA, SCHEMA_COPY):
    if os.path.exists(p):
      return json.load(open(p))
  return None


def jsonable(x):
  """Best-effort conversion of samples to JSON (tuples -> lists, bytes/objects -> repr)."""
  if isinstance(x, (str, int, bool)) or x is None:
    return x
  if isinstance(x, float):
    if x != x or x in (float('inf'), float('-inf')):
      return repr(x)
    return x
  if isinstance(x, dict):
    return {str(k): jsonable(v) for k, v in x.items()}
  if isinstance(x, (list, tuple, set, frozenset)):
    return [jsonable(v) for v in x]
  try:
    import numpy as np
    if isinstance(x, np.generic):
      return jsonable(x.item())
    if isinstance(x, np.ndarray):
      return jsonable(x.tolist())
  except Exception:  # pylint: disable=broad-except
    pass
  return repr(x)


def write(property_id, tier, seed, level, coverage, assumptions, wall_s, violations, known=0):
  ev = {
      'property_id': property_id,
      'tier': tier,
      'seed': int(seed),
      'level': level,
      'coverage': jsonable(coverage),
      'assumptions': list(assumptions),
      'wall_s': round(float(wall_s), 3),
      'violations': int(violations),
      'known_findings_reported': int(known),
      'written_at': time.strftime('%Y-%m-%dT%H:%M:%SZ', time.gmtime()),
  }
  sch = _schema()
  if sch is not None:
    import jsonschema
    jsonschema.validate(ev, sch)
  path = os.path.join(VERIF, 'evidence', property_id + '.json')
  os.makedirs(os.path.dirname(path), exist_ok=True)
  tmp = path + '.tmp.%d' % os.getpid()
  with open(tmp, 'w') as f:
    json.dump(ev, f, indent=1, sort_keys=True)
    f.write('\n')
  os.replace(tmp, path)
  return path
