"""Crash-point enumeration on the SQL write path.

`ConnProxy` wraps SQLDataStore._connection and numbers every execute / commit / rollback.  A run raises
`Crash` (a BaseException, so no handler in the service swallows it) *before* event k; the dbapi connection
is then closed without commit - for SQLite that is what a killed process leaves once the journal is rolled
back - and a fresh VizierServicer is opened on the same file.  Python code between two SQL events touches
no durable state, so "crash after event k" is the same durable state as "crash before event k+1"; k = n
(after the last event) is the fully applied, not yet acknowledged call.
"""
import os
import shutil

from vfw import svc


class Crash(BaseException):
  pass


class ConnProxy:
  def __init__(self, real, crash_at=None, hard_exit=False):
    self._r = real
    self.events = []
    self.crash_at = crash_at
    self.hard_exit = hard_exit

  def _ev(self, kind, what=''):
    if self.crash_at is not None and len(self.events) == self.crash_at:
      if self.hard_exit:
        os._exit(137)          # real process death (cross-validation child)
      raise Crash(len(self.events))
    self.events.append((kind, what))

  def execute(self, q, *a, **k):
    self._ev('execute', str(q).split()[0])
    return self._r.execute(q, *a, **k)

  def commit(self):
    self._ev('commit')
    return self._r.commit()

  def rollback(self):
    self._ev('rollback')
    return self._r.rollback()

  def __getattr__(self, n):
    return getattr(self._r, n)


class FileSystemUnderTest:
  """SQLite-file backend whose file can be saved / put back between crash runs."""

  def __init__(self, workdir):
    self.dir = workdir
    self.path = os.path.join(workdir, 'v.db')
    self.saved = os.path.join(workdir, 'saved.db')
    self.b = None

  def fresh(self):
    self.close()
    for p in (self.path, self.path + '-journal', self.path + '-wal', self.path + '-shm'):
      if os.path.exists(p):
        os.remove(p)
    self.b = svc.Backend('sqlfile', path=self.path)
    svc.CLOCK.now = svc.BASE_T
    return self.b

  def close(self):
    if self.b is not None:
      try:
        self.b.ds._connection.close()
        self.b.ds._engine.dispose()
      except Exception:  # pylint: disable=broad-except
        pass
      self.b = None

  def save(self):
    """Saves the current (quiescent, fully committed) database file."""
    self.close_keep_file()
    shutil.copyfile(self.path, self.saved)

  def close_keep_file(self):
    if self.b is not None:
      try:
        self.b.ds._connection.close()
        self.b.ds._engine.dispose()
      except Exception:  # pylint: disable=broad-except
        pass
      self.b = None

  def reopen_saved(self):
    self.close_keep_file()
    for p in (self.path + '-journal', self.path + '-wal', self.path + '-shm'):
      if os.path.exists(p):
        os.remove(p)
    shutil.copyfile(self.saved, self.path)
    return self.reopen()

  def reopen(self):
    """A restarted server on whatever the file holds now."""
    self.close_keep_file()
    b = svc.Backend.__new__(svc.Backend)
    b.kind, b.path, b.scripted = 'sqlfile', self.path, True
    b.env = svc.ScriptEnv()
    b._fallback = None
    b._recycle = svc.RECYCLE
    svc.install_clock()
    b.servicer = b._new_servicer(fresh=False)
    self.b = b
    return b

  def crash_now(self):
    """Process death: the dbapi connection goes away without commit."""
    raw = None
    try:
      c = self.b.ds._connection
      c = getattr(c, '_r', c)
      raw = c.connection.dbapi_connection
    except Exception:  # pylint: disable=broad-except
      pass
    if raw is not None:
      raw.close()
    try:
      self.b.ds._engine.dispose()
    except Exception:  # pylint: disable=broad-except
      pass
    self.b = None
