"""Explicit-state breadth-first search over a real system, level-synchronous and sharded over processes.

A *state* is identified by the canonical key of the live system; it is *reached* by replaying its action
path on a fresh system (live objects rarely copy, and replay gives the differential oracle "state
reached via snapshot == state reached from the initial state" for free).  Inside one expansion the
system is snapshotted once and restored before each outgoing transition.

A property module provides a `System` class:

    reset()                 fresh system in its initial state
    apply(action) -> [viol] executes one transition on the real code and evaluates the oracles
    key() -> hashable       canonical form of the current state (dedup + comparison key)
    snapshot()/restore(s)
    actions() -> [action]   enabled transitions in the current state (bounds applied; counts prunes)
    pruned                  counter of transitions dropped by structural bounds
"""
import hashlib
import time


def khash(key):
  return hashlib.sha1(repr(key).encode()).hexdigest()


def expand_paths(system, paths, check_replay=True):
  """Worker side: expands every path; returns a list of per-path results."""
  if getattr(system, 'cfg', None) and system.cfg.get('fresh_backends') and hasattr(system, 'hard_reset'):
    return _expand_paths_fresh(system, paths)
  out = []
  for path, want_key in paths:
    system.reset()
    for a in path:
      system.apply(a)
    k0 = system.key()
    h0 = khash(k0)
    res = {'path': path, 'key': h0, 'succ': [], 'pruned': 0, 'replay_mismatch': False, 'responses': {}}
    if check_replay and want_key is not None and want_key != h0:
      res['replay_mismatch'] = True   # state reached by replay differs from the one recorded via snapshot
      out.append(res)
      continue
    snap = system.snapshot()
    system.pruned = 0
    acts = system.actions()
    res['pruned'] = system.pruned
    for a in acts:
      system.restore(snap)
      vios = system.apply(a)
      k1 = system.key()
      res['succ'].append((a, khash(k1), vios, system.last_outcome()))
    system.drop(snap)
    out.append(res)
  return out


def _expand_paths_fresh(system, paths):
  """Replay-only expansion: every transition is reached by replaying its whole path on brand-new server and datastore
  objects (no snapshot / restore under a live server object). Slower, and free of any assumption about what a server keeps
  in memory."""
  out = []
  for path, _ in paths:
    system.hard_reset()
    for a in path:
      system.apply(a)
    h0 = khash(system.key())
    res = {'path': path, 'key': h0, 'succ': [], 'pruned': 0, 'replay_mismatch': False, 'responses': {}}
    system.pruned = 0
    acts = system.actions()
    res['pruned'] = system.pruned
    for a in acts:
      system.hard_reset()
      for b in path:
        system.apply(b)
      vios = system.apply(a)
      res['succ'].append((a, khash(system.key()), vios, system.last_outcome()))
    out.append(res)
  return out


class Search:
  """Parent side of the level-synchronous BFS."""

  def __init__(self, ctx, fname, max_depth, cfg=None, chunk=24, max_states=None, starts=None):
    self.ctx, self.fname, self.max_depth, self.cfg = ctx, fname, max_depth, cfg or {}
    self.chunk, self.max_states = chunk, max_states
    self.starts = [tuple(p) for p in (starts or [()])]  # non-initial start states (given as paths) are allowed
    self.seen = {}
    self.states = 0
    self.transitions = 0
    self.pruned = 0
    self.depth_done = -1
    self.capped = None
    self.outcomes = {}      # (action kind, outcome class) -> count : vacuity indicator
    self.samples = []
    self.replay_mismatches = 0
    self.level_sizes = []

  def run(self, init_key_hash=None):
    fp = self._run()
    if self.replay_mismatches and not self.cfg.get('fresh_backends'):
      # the state reached by replay differs from the one reached via snapshot / restore: the server objects keep something in
      # memory that the swapped datastore contents do not account for. Start again without that short cut.
      self.fallback = 'snapshot/replay mismatch: search restarted in replay-only mode on fresh server objects'
      old = self.cfg
      self.cfg = dict(self.cfg, fresh_backends=True)
      self.seen, self.states, self.transitions, self.pruned, self.depth_done, self.capped = {}, 0, 0, 0, -1, None
      self.outcomes, self.samples, self.replay_mismatches, self.level_sizes = {}, [], 0, []
      # what the first pass reported may be an artefact of the short cut: only the second pass counts
      self.ctx.violations[:] = [v for v in self.ctx.violations if not (isinstance(v.get('case'), dict) and v['case'].get('cfg') == old)]
      fp = self._run()
    return fp

  def _run(self):
    frontier = [(p, None) for p in self.starts]
    self.states = len(frontier)
    depth = 0
    fix_point = False
    new_last = 0
    while frontier and depth <= self.max_depth:
      if self.ctx.out_of_budget():
        self.capped = 'budget at depth %d' % depth
        break
      self.level_sizes.append(len(frontier))
      chunks = [frontier[i:i + self.chunk] for i in range(0, len(frontier), self.chunk)]
      nxt = []
      new_last = 0
      for results in self.ctx.pmap(self.fname, [{'paths': c, 'cfg': self.cfg} for c in chunks]):
        if self.ctx.out_of_budget():
          # stop inside the level: everything below this depth was covered completely, this level only in part
          self.capped = 'budget inside depth %d (levels below it are complete)' % depth
          break
        for r in results:
          if r['replay_mismatch']:
            self.replay_mismatches += 1
            continue
          if depth == 0 and not self.seen:
            self.seen[r['key']] = ()
          self.pruned += r['pruned']
          for a, k1, vios, outcome in r['succ']:
            self.transitions += 1
            oc = (a[0], outcome)
            self.outcomes[oc] = self.outcomes.get(oc, 0) + 1
            if vios:
              for v in vios:
                v = dict(v)
                v['case'] = {'path': list(r['path']), 'action': a, 'cfg': self.cfg, 'detail': v.get('case')}
                self.ctx.violations.append(v)
              continue  # do not explore beyond a violating transition
            if k1 not in self.seen:
              self.seen[k1] = tuple(r['path']) + (a,)
              self.states += 1
              new_last += 1
              if len(self.samples) < 6 and len(r['path']) >= 2:
                self.samples.append([list(x) for x in self.seen[k1]])
              if depth < self.max_depth:
                nxt.append((self.seen[k1], k1))
      if self.capped:
        break
      self.depth_done = depth
      frontier = nxt
      depth += 1
      if self.max_states and self.states > self.max_states:
        self.capped = 'max_states %d at depth %d' % (self.max_states, depth)
        break
    if new_last == 0 and self.capped is None:
      fix_point = True  # the last completed level discovered no new canonical state
    return fix_point

  def coverage(self, fix_point):
    return {
        'states': self.states,
        'transitions': self.transitions,
        'traces_validated_against_impl': self.transitions,
        'max_depth_completed': self.depth_done,
        'fix_point_reached': fix_point,
        'pruned_by_bound': self.pruned,
        'level_sizes': self.level_sizes,
        'cap_hit': self.capped,
        'exhaustive': self.capped is None,
        'snapshot_vs_replay_mismatches': self.replay_mismatches,
        'mode': getattr(self, 'fallback', None) or ('replay-only on fresh server objects' if self.cfg.get('fresh_backends') else 'snapshot/restore inside an expansion, replay between levels'),
        'distinct_outcomes_per_rpc': {('%s:%s' % k): v for k, v in sorted(self.outcomes.items())},
        'samples': self.samples[:6],
    }
