"""Cross-validation child: replays a history on a database file and dies (os._exit(137)) before SQL event k
of the final call. The parent compares the file it leaves with the in-process crash simulation."""
import json
import os
import sys

sys.path.insert(0, os.path.dirname(os.path.dirname(os.path.abspath(__file__))))
from vfw import boot  # noqa: E402
boot.boot()
from vfw import crash, svc  # noqa: E402


def _t(a):
  return tuple(_t(x) for x in a) if isinstance(a, list) else a


def main():
  job = json.loads(sys.argv[1])
  fs = crash.FileSystemUnderTest(job['dir'])
  b = fs.fresh()
  for a in job['path']:
    svc.apply(b, _t(a))
  b.ds._connection = crash.ConnProxy(b.ds._connection, crash_at=job['k'], hard_exit=True)
  svc.apply(b, _t(job['final']))
  os._exit(0)   # the call completed before reaching event k


if __name__ == '__main__':
  main()
