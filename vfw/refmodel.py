"""Sequential reference model of the documented Vizier service API (DESIGN.md Appendix A).

Plain dicts, deliberately boring.  It is a *refinement checker*: `step(action, cls, resp, post_trials)`
verifies that the implementation's observed outcome is one the documentation allows in the model's
current state and returns the successor model state (adopting the implementation's choice where the
documentation leaves one open: which REQUESTED trials are handed out, which suggestion gets which id).
After each step the caller compares `canon()` with the implementation's canonical stored state.

Models: studies (name, display name, state, metadata, spec), trials, and the number of suggestion
operations per (study, client).  Early-stopping records are not modelled (the yes/no answer is advisory).
"""
import copy

from vfw import svc

MUTABLE_TRIAL = ('ACTIVE', 'STOPPING')
COMPLETED = ('SUCCEEDED', 'INFEASIBLE')
# RPCs refused on a study that is not ACTIVE
STUDY_MUTATORS = ('SuggestTrials', 'CreateTrial', 'AddTrialMeasurement', 'CompleteTrial', 'DeleteTrial',
                  'CheckTrialEarlyStoppingState', 'StopTrial', 'UpdateMetadata')


class Mismatch(Exception):
  def __init__(self, clause, why):
    super().__init__('%s: %s' % (clause, why))
    self.clause, self.why = clause, why


def _mview(req_measurement):
  return svc._meas_view(req_measurement)


def _param(x):
  return (('x', 'number_value', x),)


class Model:
  def __init__(self):
    self.owners = set()
    self.studies = {}   # short name -> {'display','state','md':{(ns,key):entry},'alg', 'trials':{id:int -> trial dict}}
    self.nops = {}      # (study, client) -> number of suggestion operations created so far

  def clone(self):
    return copy.deepcopy(self)

  # ---- canonical form comparable with svc.canon_state()['studies'|'trials']
  def canon(self, studies):
    sts = []
    for s, st in self.studies.items():
      sts.append(svc.freeze({'name': svc.study_name(s), 'display': st['display'], 'state': st['state'],
                             'md': tuple(sorted(st['md'].values())), 'spec': st['spec']}))
    tr = []
    for s in studies:
      if s in self.studies:
        ts = self.studies[s]['trials']
        tr.append((s, tuple(svc.freeze(self._tview(ts[i])) for i in sorted(ts))))
    return (tuple(sorted(sts, key=repr)), tuple(tr))

  @staticmethod
  def _tview(t):
    d = dict(t)
    d['md'] = tuple(sorted(t['md'].values()))
    return d

  # ---- helpers
  def _guards(self, kind, s, tid=None):
    """Returns the error class the documentation demands, or None."""
    if s not in self.studies:
      return 'NOT_FOUND'
    if kind in STUDY_MUTATORS and self.studies[s]['state'] not in ('ACTIVE', 'STATE_UNSPECIFIED'):
      return 'FAILED_PRECONDITION'
    if tid is not None and tid not in self.studies[s]['trials']:
      return 'NOT_FOUND'
    return None

  def step(self, a, cls, resp, post=None):
    """Checks (cls, resp) against the documentation; returns the successor model (self is not modified)."""
    kind = a[0]
    m = self.clone()
    fn = getattr(m, '_' + kind)
    fn(a, cls, resp, post)
    return m

  @staticmethod
  def _need(cond, clause, why):
    if not cond:
      raise Mismatch(clause, why)

  def _expect_err(self, cls, want, kind):
    self._need(cls == want or (isinstance(want, tuple) and cls in want), 'error-class',
               '%s: expected %s, got %s' % (kind, want, cls))

  def _ok(self, cls, kind):
    self._need(cls == 'OK', 'error-class', '%s: expected OK, got %s' % (kind, cls))

  def _study_view(self, s):
    st = self.studies[s]
    return ('Study', svc.freeze({'name': svc.study_name(s), 'display': st['display'], 'state': st['state'],
                                 'md': tuple(sorted(st['md'].values())), 'spec': st['spec']}))

  def _trial_resp(self, s, tid):
    return ('Trial', svc.freeze(self._tview(self.studies[s]['trials'][tid])))

  # ---- RPCs
  def _CreateStudy(self, a, cls, resp, _):
    s = a[1]
    if s in self.studies:
      self._ok(cls, 'CreateStudy(existing)')
      self._need(resp == self._study_view(s), 'response', 'CreateStudy must return the existing study')
      return
    self._ok(cls, 'CreateStudy')
    sp = copy.deepcopy(svc.spec(a[2] if len(a) > 2 else 'SCRIPTED'))
    del sp.metadata[:]
    self.owners.add(svc.owner_of(s))
    self.studies[s] = {'display': svc.study_id(s), 'state': 'STATE_UNSPECIFIED', 'md': {}, 'trials': {},
                       'spec': sp.SerializeToString(deterministic=True)}
    want = self._study_view(s)
    # A fresh study is "treated as ACTIVE": either enum value is acceptable in the response/store.
    if resp != want:
      self.studies[s]['state'] = 'ACTIVE'
      self._need(resp == self._study_view(s), 'response', 'CreateStudy response differs from the created study')

  def _CreateStudyNamed(self, a, cls, resp, _):
    self._expect_err(cls, 'UNKNOWN', 'CreateStudy(name set)')

  def _CreateStudyNoDisplay(self, a, cls, resp, _):
    self._expect_err(cls, 'UNKNOWN', 'CreateStudy(no display_name)')

  def _GetStudy(self, a, cls, resp, _):
    g = self._guards('GetStudy', a[1])
    if g:
      return self._expect_err(cls, g, 'GetStudy')
    self._ok(cls, 'GetStudy')
    self._need(resp == self._study_view(a[1]), 'response', 'GetStudy differs from stored study')

  def _ListStudies(self, a, cls, resp, _):
    ow = a[1].split('/', 1)[1] if len(a) > 1 else 'o'
    if ow not in self.owners:
      self._need(cls in ('NOT_FOUND', 'OK'), 'error-class', 'ListStudies(unknown owner): got %s' % cls)
      if cls == 'OK':
        self._need(resp == ('Studies', ()), 'response', 'ListStudies of an unknown owner must be empty')
      return
    self._ok(cls, 'ListStudies')
    want = sorted((self._study_view(s)[1] for s in self.studies if svc.owner_of(s) == ow), key=repr)
    self._need(sorted(resp[1], key=repr) == want, 'response', 'ListStudies differs from stored studies')

  def _DeleteStudy(self, a, cls, resp, _):
    g = self._guards('DeleteStudy', a[1])
    if g:
      return self._expect_err(cls, g, 'DeleteStudy')
    self._ok(cls, 'DeleteStudy')
    del self.studies[a[1]]
    # operation numbering after re-creation is don't-care for the lifecycle model
    for k in [k for k in self.nops if k[0] == a[1]]:
      del self.nops[k]

  def _SetStudyState(self, a, cls, resp, _):
    g = self._guards('SetStudyState', a[1])
    if g:
      return self._expect_err(cls, g, 'SetStudyState')
    self._ok(cls, 'SetStudyState')
    self.studies[a[1]]['state'] = a[2]
    self._need(resp == self._study_view(a[1]), 'response', 'SetStudyState response differs')

  def _CreateTrial(self, a, cls, resp, _):
    s, kind, x = a[1], a[2], a[3]
    g = self._guards('CreateTrial', s)
    if g:
      return self._expect_err(cls, g, 'CreateTrial')
    self._ok(cls, 'CreateTrial')
    ts = self.studies[s]['trials']
    tid = max(ts) + 1 if ts else 1
    t = {'id': str(tid), 'name': svc.trial_name(tid, s), 'state': 'REQUESTED', 'client': '',
         'params': _param(x), 'meas': (), 'final': None, 'reason': '', 'md': {}}
    if kind == 'succeeded':
      t['state'] = 'SUCCEEDED'
      t['final'] = _mview(svc.measurement(x))
    elif kind == 'infeasible':
      t['state'] = 'INFEASIBLE'
      t['reason'] = 'r'
    ts[tid] = t
    self._need(resp == self._trial_resp(s, tid), 'response',
               'CreateTrial(%s) must store the trial as %s with id %d' % (kind, t['state'], tid))

  def _GetTrial(self, a, cls, resp, _):
    g = self._guards('GetTrial', a[1], a[2])
    if g:
      return self._expect_err(cls, g, 'GetTrial')
    self._ok(cls, 'GetTrial')
    self._need(resp == self._trial_resp(a[1], a[2]), 'response', 'GetTrial differs from stored trial')

  def _ListTrials(self, a, cls, resp, _):
    g = self._guards('ListTrials', a[1])
    if g:
      return self._expect_err(cls, g, 'ListTrials')
    self._ok(cls, 'ListTrials')
    ts = self.studies[a[1]]['trials']
    want = sorted((svc.freeze(self._tview(ts[i])) for i in ts), key=repr)
    self._need(sorted(resp[1], key=repr) == want, 'response', 'ListTrials differs from stored trials')

  def _AddTrialMeasurement(self, a, cls, resp, _):
    s, tid, v = a[1], a[2], a[3]
    g = self._guards('AddTrialMeasurement', s, tid)
    if g:
      return self._expect_err(cls, g, 'AddTrialMeasurement')
    t = self.studies[s]['trials'][tid]
    if t['state'] in MUTABLE_TRIAL:
      self._ok(cls, 'AddTrialMeasurement')
      t['meas'] = t['meas'] + (_mview(svc.measurement(v, step=int(v * 10))),)
      self._need(resp == self._trial_resp(s, tid), 'response', 'AddTrialMeasurement response differs')
    elif t['state'] == 'INFEASIBLE':
      self._need(cls in ('OK', 'FAILED_PRECONDITION'), 'error-class',
                 'AddTrialMeasurement(INFEASIBLE): got %s' % cls)
      if cls == 'OK':
        self._need(resp == self._trial_resp(s, tid), 'response', 'AddTrialMeasurement(INFEASIBLE) must return the unchanged trial')
    else:
      self._expect_err(cls, 'FAILED_PRECONDITION', 'AddTrialMeasurement(%s)' % t['state'])

  def _CompleteTrial(self, a, cls, resp, _):
    s, tid, mode = a[1], a[2], a[3]
    g = self._guards('CompleteTrial', s, tid)
    if g:
      return self._expect_err(cls, g, 'CompleteTrial')
    t = self.studies[s]['trials'][tid]
    if t['state'] not in MUTABLE_TRIAL:
      return self._expect_err(cls, 'FAILED_PRECONDITION', 'CompleteTrial(%s)' % t['state'])
    fm = _mview(svc.measurement(a[4] if len(a) > 4 else 2.0))
    if mode.startswith('infeasible'):
      self._ok(cls, 'CompleteTrial(infeasible)')
      t['state'] = 'INFEASIBLE'
      t['reason'] = '' if mode == 'infeasible-noreason' else 'bad'
      if mode == 'infeasible+final':
        # documentation conflicts on whether a measurement supplied with an infeasible completion is kept
        t2 = dict(t)
        t2['final'] = fm
        if resp == ('Trial', svc.freeze(self._tview(t2))):
          t['final'] = fm
      self._need(resp == self._trial_resp(s, tid), 'response', 'CompleteTrial(infeasible) response differs')
    elif mode == 'final':
      self._ok(cls, 'CompleteTrial(final)')
      t['state'] = 'SUCCEEDED'
      t['final'] = fm
      self._need(resp == self._trial_resp(s, tid), 'response', 'CompleteTrial(final) response differs')
    else:  # none given
      if t['meas']:
        self._ok(cls, 'CompleteTrial(auto-select)')
        t['state'] = 'SUCCEEDED'
        t['final'] = t['meas'][-1]
        self._need(resp == self._trial_resp(s, tid), 'response', 'CompleteTrial(auto-select) must use the last measurement')
      else:
        self._expect_err(cls, 'UNKNOWN', 'CompleteTrial(no measurement at all)')

  def _StopTrial(self, a, cls, resp, _):
    s, tid = a[1], a[2]
    g = self._guards('StopTrial', s, tid)
    if g:
      return self._expect_err(cls, g, 'StopTrial')
    t = self.studies[s]['trials'][tid]
    if t['state'] == 'ACTIVE':
      self._ok(cls, 'StopTrial')
      t['state'] = 'STOPPING'
      self._need(resp == self._trial_resp(s, tid), 'response', 'StopTrial response differs')
    elif t['state'] in ('STOPPING', 'SUCCEEDED'):
      self._need(cls in ('OK', 'FAILED_PRECONDITION'), 'error-class', 'StopTrial(%s): got %s' % (t['state'], cls))
      if cls == 'OK':
        self._need(resp == self._trial_resp(s, tid), 'response', 'StopTrial no-op must return the unchanged trial')
    else:
      self._expect_err(cls, 'FAILED_PRECONDITION', 'StopTrial(%s)' % t['state'])

  def _DeleteTrial(self, a, cls, resp, _):
    g = self._guards('DeleteTrial', a[1], a[2])
    if g:
      return self._expect_err(cls, g, 'DeleteTrial')
    self._ok(cls, 'DeleteTrial')
    del self.studies[a[1]]['trials'][a[2]]

  def _CheckTrialEarlyStoppingState(self, a, cls, resp, _):
    s, tid = a[1], a[2]
    g = self._guards('CheckTrialEarlyStoppingState', s, tid)
    if g:
      return self._expect_err(cls, g, 'CheckTrialEarlyStoppingState')
    t = self.studies[s]['trials'][tid]
    if t['state'] not in MUTABLE_TRIAL:
      return self._expect_err(cls, 'FAILED_PRECONDITION', 'CheckTrialEarlyStoppingState(%s)' % t['state'])
    env = svc.env_of(a)
    if (env.get('fail_stop') or env.get('fail_factory') or self._md_names_missing(s, env)) and cls != 'OK':
      return  # failure reported as an error status (C06 checks that nothing is left half-done)
    self._ok(cls, 'CheckTrialEarlyStoppingState')
    self._need(resp[0] == 'EarlyStop', 'response', 'unexpected response type')
    # the algorithm may attach metadata (only when it was actually consulted: adopt from the stored state)
    if env.get('md_study') or env.get('md_trials'):
      self._apply_algo_md(s, env)

  def _md_names_missing(self, s, env):
    """An algorithm answer that attaches metadata to a trial that does not exist is a failed answer."""
    return any(tid not in self.studies[s]['trials'] for tid, _, _, _ in env.get('md_trials', ()))

  def _apply_algo_md(self, s, env):
    st = self.studies[s]
    for ns, k, v in env.get('md_study', ()):
      e = svc.vz.Namespace(ns).encode()
      st['md'][(e, k)] = (e, k, 'str', v)
    for tid, ns, k, v in env.get('md_trials', ()):
      e = svc.vz.Namespace(ns).encode()
      if tid in st['trials']:
        st['trials'][tid]['md'][(e, k)] = (e, k, 'str', v)

  def _ListOptimalTrials(self, a, cls, resp, _):
    s = a[1]
    g = self._guards('ListOptimalTrials', s)
    if g:
      return self._expect_err(cls, g, 'ListOptimalTrials')
    self._ok(cls, 'ListOptimalTrials')
    ts = self.studies[s]['trials']
    # single objective 'm' MAXIMIZE in the lifecycle alphabet
    cand = {}
    for i, t in ts.items():
      if t['state'] == 'SUCCEEDED' and t['final'] is not None:
        vals = dict(t['final'][0])
        if 'm' in vals and vals['m'] == vals['m']:
          cand[i] = vals['m']
    best = max(cand.values()) if cand else None
    want = sorted((svc.freeze(self._tview(ts[i])) for i, v in cand.items() if v == best), key=repr)
    self._need(sorted(resp[1], key=repr) == want, 'response', 'ListOptimalTrials differs from the best completed trials')

  def _UpdateMetadata(self, a, cls, resp, _):
    s, delta = a[1], a[2]
    g = self._guards('UpdateMetadata', s)
    if g:
      return self._expect_err(cls, g, 'UpdateMetadata')
    st = self.studies[s]
    bad = [tid for tid, _, _, _ in delta if tid is not None and (not isinstance(tid, int) or tid not in st['trials'])]
    if bad:
      self._need(cls in ('OK', 'NOT_FOUND', 'UNKNOWN'), 'error-class', 'UpdateMetadata(missing trial): got %s' % cls)
      if cls == 'OK':
        self._need(resp == ('UpdateMetadata', True), 'response',
                   'UpdateMetadata naming a missing trial must report error_details')
      return  # state unchanged
    self._ok(cls, 'UpdateMetadata')
    self._need(resp == ('UpdateMetadata', False), 'response', 'UpdateMetadata reported an error for a valid update')
    for tid, ns, key, val in delta:
      if isinstance(val, tuple) and val and val[0] == 'proto':
        from google.protobuf import any_pb2, duration_pb2
        any_ = any_pb2.Any()
        any_.Pack(duration_pb2.Duration(seconds=val[1]))
        entry = (ns, key, 'proto', any_.type_url, bytes(any_.value))
      else:
        entry = (ns, key, 'str', val)
      if tid is None:
        st['md'][(ns, key)] = entry
      else:
        st['trials'][tid]['md'][(ns, key)] = entry

  def _GetOperation(self, a, cls, resp, _):
    s, c, n = a[1], a[2], a[3]
    if self.nops.get((s, c), 0) >= n and s in self.studies:
      self._ok(cls, 'GetOperation')
      self._need(resp[0] == 'Operation' and resp[2], 'response', 'a stored suggestion operation must be done')
    elif s in self.studies:
      self._expect_err(cls, 'NOT_FOUND', 'GetOperation(missing)')
    # operations of deleted studies: don't-care here (C07 compares the backends)

  @staticmethod
  def _post_trials(post, s):
    if post is None:
      return ()
    for name, ts in dict(post)['trials']:
      if name == s:
        return ts
    return ()

  @staticmethod
  def _post_nops(post, s, c):
    for s_, c_, ops in dict(post)['ops']:
      if s_ == s and c_ == c:
        return len(ops)
    return 0

  def _SuggestTrials(self, a, cls, resp, post):
    s, c, n = a[1], a[2], a[3]
    env = svc.env_of(a)
    g = self._guards('SuggestTrials', s)
    if g:
      return self._expect_err(cls, g, 'SuggestTrials')
    ts = self.studies[s]['trials']
    own = [i for i in sorted(ts) if ts[i]['state'] == 'ACTIVE' and ts[i]['client'] == c]
    req = [i for i in sorted(ts) if ts[i]['state'] == 'REQUESTED']
    from_own = own[:n]
    need = n - len(from_own)
    from_req_n = min(need, len(req))
    need_new = need - from_req_n
    fails = (env.get('fail_suggest') or env.get('fail_factory') or self._md_names_missing(s, env)) if need_new > 0 else None
    post_t = {int(dict(t)['id']): dict(t) for t in self._post_trials(post, s)}
    took = [i for i in req if post_t.get(i, {}).get('state') == 'ACTIVE']
    if fails and cls != 'OK':
      # The failure was reported as an error status. Nothing may have been created; REQUESTED trials may
      # already have been handed to the caller; an operation record may or may not exist.
      self._need(len(took) <= from_req_n, 'suggest-requested-pool', 'more REQUESTED trials consumed than asked for')
      for i in took:
        ts[i]['state'] = 'ACTIVE'
        ts[i]['client'] = c
      self._need(not [i for i in post_t if i not in ts], 'suggest-created-count', 'a failed suggest created trials')
      self.nops[(s, c)] = self._post_nops(post, s, c)
      return
    self._ok(cls, 'SuggestTrials')
    self._need(resp[0] == 'Operation', 'response', 'SuggestTrials must return an operation')
    _, opname, done, has_err, handed = resp
    self._need(done, 'suggest-op-done', 'SuggestTrials returned an operation that is not done')
    num = self.nops.get((s, c), 0) + 1
    self.nops[(s, c)] = num
    want_name = svc.resources.SuggestionOperationResource(svc.owner_of(s), svc.study_id(s), c, num).name
    self._need(opname == want_name, 'suggest-op-number', 'operation %s, expected %s' % (opname, want_name))
    if fails:
      self._need(has_err, 'suggest-failure-reported', 'algorithm failure must yield an operation with error')
      delivered = 0
    else:
      self._need(not has_err, 'suggest-op-error', 'operation carries an error although the algorithm did not fail')
      delivered = 0 if need_new <= 0 else (0 if env.get('deliver_zero') else max(0, need_new + env.get('delta', 0)))
    # adopt the implementation's choice of REQUESTED trials and of id assignment from the stored state
    max_before = max(ts) if ts else 0
    new_ids = sorted(i for i in post_t if i not in ts)
    self._need(len(new_ids) == delivered, 'suggest-created-count',
               'algorithm delivered %d, %d trials were created (ids %s)' % (delivered, len(new_ids), new_ids))
    self._need(all(i > max_before for i in new_ids), 'suggest-fresh-ids',
               'new trial ids %s are not larger than every existing id (max %d)' % (new_ids, max_before))
    self._need(new_ids == list(range(max_before + 1, max_before + 1 + len(new_ids))), 'suggest-fresh-ids',
               'new trial ids %s are not consecutive after %d' % (new_ids, max_before))
    self._need(len(took) == from_req_n, 'suggest-requested-pool',
               'expected %d REQUESTED trials to be handed out, %d were' % (from_req_n, len(took)))
    for i in took:
      ts[i]['state'] = 'ACTIVE'
      ts[i]['client'] = c
    n_active_new = min(need_new, delivered)
    want_params = sorted(svc.param_for(max_before + j + 1) for j in range(delivered))
    got_params = sorted(post_t[i]['params'][0][2] for i in new_ids)
    self._need(want_params == got_params, 'suggest-params', 'created trials do not carry the delivered suggestions')
    for j, i in enumerate(new_ids):
      p = post_t[i]
      st_want = 'ACTIVE' if j < n_active_new else 'REQUESTED'
      ts[i] = {'id': str(i), 'name': svc.trial_name(i, s), 'state': st_want,
               'client': c if st_want == 'ACTIVE' else '', 'params': p['params'], 'meas': (), 'final': None,
               'reason': '', 'md': {}}
    self._apply_algo_md(s, env if (need_new > 0 and not fails) else {})
    if has_err:
      return
    got_ids = [dict(t)['id'] for t in handed or ()]
    n_want = len(from_own) + from_req_n + n_active_new
    self._need(len(got_ids) == n_want, 'suggest-count',
               'asked %d, own-active %d, requested %d, delivered %d: expected %d trials, got %d'
               % (n, len(from_own), from_req_n, delivered, n_want, len(got_ids)))
    self._need(got_ids[:len(from_own)] == [str(i) for i in from_own], 'suggest-order',
               'own active trials must come first: %s' % got_ids)
    mid = got_ids[len(from_own):len(from_own) + from_req_n]
    self._need(sorted(mid) == sorted(str(i) for i in took), 'suggest-order', 'requested trials must come second')
    self._need(got_ids[len(from_own) + from_req_n:] == [str(i) for i in new_ids[:n_active_new]], 'suggest-order',
               'new trials must come last in id order: %s' % got_ids)
    for t in handed or ():
      d = dict(t)
      self._need(d['state'] == 'ACTIVE' and d['client'] == c, 'suggest-assignment',
                 'handed-out trial %s is %s/%r' % (d['id'], d['state'], d['client']))
      self._need(t == svc.freeze(self._tview(ts[int(d['id'])])), 'response', 'handed-out trial differs from stored trial')


def None_list(k):
  return [None] * k
