"""Entry point behind ./check: runs one property's driver, classifies violations, writes evidence."""
import argparse
import concurrent.futures as cf
import importlib
import json
import multiprocessing as mp
import os
import sys
import time
import traceback

VERIF = os.path.dirname(os.path.dirname(os.path.abspath(__file__)))
sys.path.insert(0, VERIF)

from vfw import boot as _boot  # noqa: E402
from vfw import evidence, findings  # noqa: E402


class HarnessError(Exception):
  """Something is wrong with the harness (non-determinism, stale build) - never a VIOLATION."""


def _worker_init(modname, env):
  os.environ.update(env)
  _boot.boot()
  importlib.import_module(modname)


def _call(modname, fname, arg):
  m = importlib.import_module(modname)
  return getattr(m, fname)(arg)


class Ctx:
  """What a driver gets: tier, seed, budget, a process pool, and a violation sink."""

  def __init__(self, pid, tier, seed, budget_s, workers):
    self.pid, self.tier, self.seed, self.budget_s, self.workers = pid, tier, seed, budget_s, workers
    self.t0 = time.time()
    self.violations = []  # dicts: sig, desc, case
    self.assumptions = []
    self.notes = []
    self._pool = None
    self._modname = 'props.' + pid.lower()
    import tempfile
    self.tmp = tempfile.mkdtemp(prefix='vfw-%s-' % pid, dir='/dev/shm' if os.path.isdir('/dev/shm') else None)
    os.environ['VERIF_TMP'] = self.tmp

  @property
  def quick(self):
    return self.tier == 'quick'

  def elapsed(self):
    return time.time() - self.t0

  def out_of_budget(self):
    return self.budget_s is not None and self.elapsed() > self.budget_s

  def violation(self, sig, desc, case):
    self.violations.append({'sig': sig, 'desc': desc, 'case': case})

  def extend(self, vs):
    for v in vs:
      self.violations.append(v)

  def pool(self):
    if self._pool is None:
      env = {k: v for k, v in os.environ.items() if k.startswith(('VERIF_', 'VIZIER_', 'PYTHONHASHSEED', 'JAX_', 'TF_', 'XLA_'))}
      self._pool = cf.ProcessPoolExecutor(
          max_workers=self.workers, mp_context=mp.get_context('spawn'),
          initializer=_worker_init, initargs=(self._modname, env))
    return self._pool

  def pmap(self, fname, args, chunksize=1):
    """Runs props.<id>.<fname>(arg) for every arg in worker processes; yields results in order."""
    args = list(args)
    if self.workers <= 1 or not args:
      m = importlib.import_module(self._modname)
      for a in args:
        yield getattr(m, fname)(a)
      return
    import concurrent.futures as cf
    futs = [self.pool().submit(_call, self._modname, fname, a) for a in args]
    # catch-all for code under test that never returns: if no task at all finishes for `stall` seconds the run is
    # reported as a violation (naming the tasks in flight) instead of hanging for ever
    stall = float(os.environ.get('VERIF_TASK_TIMEOUT_S', '0')) or max(900.0, 4 * self.budget_s)
    pending = set(futs)
    try:
      i = 0
      while i < len(futs):
        if futs[i].done():
          yield futs[i].result()
          i += 1
          continue
        done, _ = cf.wait(pending, timeout=stall, return_when=cf.FIRST_COMPLETED)
        if not done:
          running = [repr(a)[:300] for a, f in zip(args, futs) if f.running()]
          self.violation('%s|does-not-terminate|%s' % (self.pid, fname),
                         '%s: no task finished within %.0f s; in flight: %s' % (fname, stall, running[:4]), {'fname': fname, 'in_flight': running[:16]})
          procs = list(getattr(self._pool, '_processes', {}).values())
          self._pool.shutdown(wait=False, cancel_futures=True)
          for pr in procs:
            try:
              pr.kill()
            except Exception:  # pylint: disable=broad-except
              pass
          self._pool = None
          return
        pending -= done
    finally:
      for f in futs:
        f.cancel()

  def close(self):
    if self._pool is not None:
      self._pool.shutdown(wait=True, cancel_futures=True)
      self._pool = None
    import shutil
    shutil.rmtree(self.tmp, ignore_errors=True)


def main(argv=None):
  ap = argparse.ArgumentParser()
  ap.add_argument('pid')
  ap.add_argument('--tier', default=os.environ.get('VERIF_TIER', 'quick'), choices=['quick', 'thorough'])
  ap.add_argument('--seed', type=int, default=int(os.environ.get('VERIF_SEED', '0')))
  ap.add_argument('--replay', default=None)
  ap.add_argument('--budget-s', type=float, default=None)
  ap.add_argument('--workers', type=int, default=int(os.environ.get('VERIF_WORKERS', '0')) or min(16, os.cpu_count() or 1))
  a = ap.parse_args(argv)
  if a.budget_s is None:
    # default wall-clock budgets; a driver that runs out stops between (or inside) complete bound levels and says so
    a.budget_s = float(os.environ.get('VERIF_BUDGET_S', '0')) or (240.0 if a.tier == 'quick' else 2400.0)
  pid = a.pid.upper()
  os.environ.setdefault('PYTHONHASHSEED', '0')
  os.environ['VERIF_TIER'] = a.tier
  os.environ['VERIF_SEED'] = str(a.seed)
  _boot.boot()
  mod = importlib.import_module('props.' + pid.lower())
  ctx = Ctx(pid, a.tier, a.seed, a.budget_s, a.workers)

  if a.replay:
    case = json.load(open(a.replay))
    vs = mod.replay(case.get('case', case), ctx)
    ctx.close()
    if vs:
      for v in vs:
        print('REPRODUCED property=%s sig=%s :: %s' % (pid, v['sig'], v['desc']))
      print('VIOLATION property=%s replay=%s' % (pid, a.replay))
      return 1
    print('replay: no violation reproduced for %s' % a.replay)
    return 0

  crashed = None
  try:
    coverage = mod.run(ctx)
  except HarnessError as e:
    ctx.close()
    print('HARNESS-ERROR property=%s %s' % (pid, e))
    traceback.print_exc()
    return 2
  except Exception as e:  # pylint: disable=broad-except
    # An exception nobody in the driver expected. If it was raised by the code under test (innermost frame
    # inside the repository) the property's "this call succeeds" expectation is broken: report it as a
    # violation with the traceback as replay artefact. Anything else is a harness error.
    tb = ''.join(traceback.format_exception(type(e), e, e.__traceback__))
    cause = e.__cause__
    while cause is not None:
      tb += '\n' + str(cause)
      cause = cause.__cause__
    files = [l.strip() for l in tb.splitlines() if l.strip().startswith('File "')]
    inner = files[-1] if files else ''
    ctx.close()
    if inner.startswith('File "%s' % _boot.REPO.rstrip('/')):
      where = inner.split('"')[1].replace(_boot.REPO.rstrip('/') + '/', '') + ':' + inner.split('line ')[1].split(',')[0]
      crashed = {'sig': '%s|code-under-test-raised|%s|%s' % (pid, type(e).__name__, where),
                 'desc': 'the code under test raised %s: %s at %s where the driver relies on success' % (type(e).__name__, str(e)[:200], where),
                 'case': {'traceback': tb[-4000:]}}
      ctx.violations.append(crashed)
      coverage = {'evaluations': 1, 'distinct_nontrivial': 2, 'states': 1, 'transitions': 1, 'traces_validated_against_impl': 0,
                  'rule': 'the run was cut short by an exception raised inside the code under test', 'samples': [crashed['desc']], 'exhaustive': False}
    else:
      print('HARNESS-ERROR property=%s unexpected %s in the driver' % (pid, type(e).__name__))
      print(tb[-3000:])
      return 2
  finally:
    ctx.close()

  # classify
  by_sig = {}
  for v in ctx.violations:
    by_sig.setdefault(v['sig'], v)  # first = smallest (alphabets are ordered simplest-first)
  known = findings.known_sigs(pid)
  new, old = [], []
  for sig, v in by_sig.items():
    (old if sig in known else new).append(v)
  for v in old:
    print('KNOWN-FINDING: property=%s %s [%s]' % (pid, known[v['sig']].get('what', v['desc']), v['sig']))
  rdir = os.path.join(VERIF, 'replays', pid)
  printed = 0
  for v in new:
    os.makedirs(rdir, exist_ok=True)
    path = os.path.join(rdir, findings.short(v['sig']) + '.json')
    with open(path, 'w') as f:
      json.dump(evidence.jsonable({'property': pid, 'sig': v['sig'], 'desc': v['desc'], 'case': v['case']}), f, indent=1)
      f.write('\n')
    if printed < 10:
      print('  violation: %s :: %s' % (v['sig'], v['desc']))
      print('VIOLATION property=%s replay=%s' % (pid, path))
      printed += 1
  coverage = dict(coverage)
  coverage.setdefault('violating_cases_total', len(ctx.violations))
  coverage.setdefault('distinct_violation_signatures', len(by_sig))
  coverage.setdefault('new_violation_signatures', [v['sig'] for v in new][:300])
  wall = time.time() - ctx.t0
  evidence.write(pid, a.tier, a.seed, mod.LEVEL, coverage, getattr(mod, 'ASSUMPTIONS', []) + ctx.assumptions,
                 wall, len(new), known=len(old))
  print('%s tier=%s seed=%d wall=%.1fs known=%d new=%d %s' % (
      pid, a.tier, a.seed, wall, len(old), len(new),
      ' '.join('%s=%s' % (k, coverage[k]) for k in ('states', 'transitions', 'evaluations', 'distinct_nontrivial', 'exhaustive') if k in coverage)))
  return 1 if new else 0


if __name__ == '__main__':
  sys.exit(main())
