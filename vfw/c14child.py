"""C14 child: one fresh process = one 'execution'. Applies the requested environment perturbations, then runs
every (designer, space, seed) job and the benchmark jobs, and prints the suggestion lists as JSON."""
import json
import os
import sys

sys.path.insert(0, os.path.dirname(os.path.dirname(os.path.abspath(__file__))))
from vfw import boot  # noqa: E402
boot.boot()


def main():
  job = json.loads(sys.argv[1])
  import random
  import time
  import numpy as np
  perts = job['perturbations']
  if 'np_seed' in perts:
    np.random.seed(12345)
    np.random.random(17)
  if 'py_seed' in perts:
    random.seed(999)
    random.random()
  if 'time' in perts:
    real = time.time
    time.time = lambda: 1234567890.0 + (real() % 1.0)   # a very different wall clock
  if 'x64' in perts:
    from vizier._src.service import pythia_service
    pythia_service.PythiaServicer()     # switches jax to float64 globally
  if 'jax_key' in perts:
    import jax
    k = jax.random.PRNGKey(99)
    for _ in range(5):
      k, _ = jax.random.split(k)
  from props import c14
  if 'other_first' in perts:
    c14.run_designer('eagle', ('d-55', 'c5'), 77, 2, 2)
    c14.run_designer('eagle', ('x3c', 'd01'), 77, 2, 2)       # a look-alike of the ('x3d', 'd01') job: same names, ranges, counts
    c14.run_designer('random', ('x12',), 78, 2, 2)
  out = {}
  for name, keys, seed in job['jobs']:
    try:
      out['%s|%s|%d' % (name, '+'.join(keys), seed)] = c14.run_designer(name, tuple(keys), seed, job.get('gp_rounds', job['rounds']) if name.startswith('gp') else job['rounds'], job['batch'])
    except Exception as e:  # pylint: disable=broad-except
      out['%s|%s|%d' % (name, '+'.join(keys), seed)] = 'ERR:' + type(e).__name__
  for algo, exp, seed in job.get('benchmarks', []):
    try:
      out['bench|%s|%s|%d' % (algo, exp, seed)] = c14.run_benchmark(algo, exp, seed)
    except Exception as e:  # pylint: disable=broad-except
      out['bench|%s|%s|%d' % (algo, exp, seed)] = 'ERR:' + type(e).__name__ + ':' + str(e)[:80]
  sys.stdout.write('\n@@RESULT@@' + json.dumps(out) + '\n')


if __name__ == '__main__':
  main()
