"""Known-findings bookkeeping.

/verif/known_findings.json lists genuine defects of google/vizier that were recorded rather than
repaired, each identified by a *signature*: property + the oracle clause that fails + the specific
call site / input class that makes it fail (see DESIGN.md section 5).  A violation whose signature is
listed prints `KNOWN-FINDING:` and does not fail the check; any other violation of the same property
is still reported.  `fixed` entries are a log only and suppress nothing.  Nothing here writes the file.
"""
import hashlib
import json
import os

VERIF = os.path.dirname(os.path.dirname(os.path.abspath(__file__)))
PATH = os.path.join(VERIF, 'known_findings.json')


def load():
  try:
    d = json.load(open(PATH))
  except OSError:
    d = {'findings': [], 'fixed': []}
  return d


def known_sigs(property_id):
  return {f['sig']: f for f in load().get('findings', []) if f.get('property') == property_id}


def short(sig):
  return hashlib.sha1(sig.encode()).hexdigest()[:10]
