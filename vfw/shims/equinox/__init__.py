"""Minimal stand-in for equinox (installed equinox 0.11.7 cannot import on jax 0.11.2).

Only what vizier uses: Module (frozen dataclass registered as a pytree, with field converters and
static fields), field, tree_pformat, filter_jit / filter_vmap / filter_value_and_grad (array/non-array
partitioning on top of jax.jit / vmap / value_and_grad).
"""
import dataclasses, functools
import jax, jax.numpy as jnp, numpy as np

def field(*, converter=None, static=False, **kw):
  md = dict(kw.pop('metadata', {}) or {})
  if converter is not None: md['converter'] = converter
  if static: md['static'] = True
  return dataclasses.field(metadata=md, **kw)

class _Meta(type(object)):
  pass

import abc
class _ModuleMeta(abc.ABCMeta):
  def __new__(mcs, name, bases, ns, **kw):
    cls = super().__new__(mcs, name, bases, ns, **kw)
    if name == 'Module' and not bases: return cls
    user_init = '__init__' in ns
    cls = dataclasses.dataclass(eq=False, repr=True, frozen=False, init=not user_init)(cls)
    flds = dataclasses.fields(cls)
    dyn = [f.name for f in flds if not f.metadata.get('static')]
    sta = [f.name for f in flds if f.metadata.get('static')]
    def flatten(o): return tuple(getattr(o, n) for n in dyn), tuple(getattr(o, n) for n in sta)
    def unflatten(aux, children):
      o = object.__new__(cls)
      for n, v in zip(dyn, children): object.__setattr__(o, n, v)
      for n, v in zip(sta, aux): object.__setattr__(o, n, v)
      return o
    jax.tree_util.register_pytree_node(cls, flatten, unflatten)
    return cls
  def __call__(cls, *a, **kw):
    o = super().__call__(*a, **kw)
    for f in dataclasses.fields(cls):
      conv = f.metadata.get('converter')
      if conv is not None: object.__setattr__(o, f.name, conv(getattr(o, f.name)))
    object.__setattr__(o, '_eqx_frozen', True)
    return o

class Module(metaclass=_ModuleMeta):
  def __setattr__(self, k, v):
    if getattr(self, '_eqx_frozen', False): raise dataclasses.FrozenInstanceError(k)
    object.__setattr__(self, k, v)

def tree_pformat(x, **kw): return repr(x)

def is_array(x): return isinstance(x, (jax.Array, np.ndarray, np.generic))
def is_inexact_array(x): return is_array(x) and jnp.issubdtype(x.dtype, jnp.inexact)

def partition(tree, pred):
  leaves, treedef = jax.tree_util.tree_flatten(tree)
  a = [l if pred(l) else None for l in leaves]; b = [None if pred(l) else l for l in leaves]
  return treedef, a, b
def combine(treedef, a, b):
  return jax.tree_util.tree_unflatten(treedef, [x if x is not None else y for x, y in zip(a, b)])

class _Static:
  def __init__(self, v): self.v = v
  def __hash__(self):
    try: return hash(self.v)
    except TypeError: return id(self.v)
  def __eq__(self, o):
    try: return bool(self.v == o.v)
    except Exception: return self.v is o.v

def filter_jit(fn=None, **kw):
  if fn is None: return lambda f: filter_jit(f, **kw)
  @functools.partial(jax.jit, static_argnums=(0, 2))
  def _run(treedef, dyn, sta):
    args, kwargs = combine(treedef, dyn, [s.v if s is not None else None for s in sta.v])
    return fn(*args, **kwargs)
  @functools.wraps(fn)
  def wrapper(*args, **kwargs):
    treedef, dyn, sta = partition((args, kwargs), is_array)
    sta = _Static(tuple(_Static(s) if s is not None else None for s in sta))
    return _run(treedef, dyn, sta)
  return wrapper

def filter_vmap(fn=None, **kw):
  if fn is None: return lambda f: filter_vmap(f, **kw)
  return jax.vmap(fn)

def filter_value_and_grad(fn=None, *, has_aux=False):
  if fn is None: return lambda f: filter_value_and_grad(f, has_aux=has_aux)
  def wrapper(x, *a, **k):
    treedef, diff, rest = partition(x, is_inexact_array)
    def inner(d): return fn(combine(treedef, d, rest), *a, **k)
    return jax.value_and_grad(inner, has_aux=has_aux)(diff)
  return wrapper
