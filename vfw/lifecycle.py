"""The service-level System used by C01 / C02 / C06 / C07 / C10B: one or several real backends driven in
lock-step, optional reference model, lifecycle invariants on every transition."""
import os
import tempfile

from vfw import refmodel, svc

LEGAL = {('REQUESTED', 'ACTIVE'), ('ACTIVE', 'STOPPING'), ('ACTIVE', 'SUCCEEDED'), ('ACTIVE', 'INFEASIBLE'),
         ('STOPPING', 'SUCCEEDED'), ('STOPPING', 'INFEASIBLE')}
DONE = ('SUCCEEDED', 'INFEASIBLE')
READ_ONLY = ('GetStudy', 'ListStudies', 'GetTrial', 'ListTrials', 'ListOptimalTrials', 'GetOperation')


def E(**kw):
  """Environment answer attached to an action (hashable)."""
  return ('env',) + tuple(sorted(kw.items()))


def trials_of(canon, s='s'):
  d = dict(canon)
  for name, ts in d['trials']:
    if name == s:
      return [dict(t) for t in ts]
  return None


def study_of(canon, s='s'):
  d = dict(canon)
  for st in d['studies']:
    sd = dict(st)
    if sd['name'] == svc.study_name(s):
      return sd
  return None


def invariants(canon, studies=('s',)):
  """Appendix A invariants on a canonical state. Returns list of (clause, text)."""
  bad = []
  d = dict(canon)
  for s, ts in d['trials']:
    ids = [dict(t)['id'] for t in ts]
    if len(set(ids)) != len(ids):
      bad.append(('unique-ids', 'duplicate trial ids %s' % ids))
    for t in ts:
      t = dict(t)
      if not t['id'].isdigit() or int(t['id']) <= 0:
        bad.append(('positive-id', 'trial id %r' % t['id']))
      elif t['name'] != svc.trial_name(int(t['id']), s):
        bad.append(('name-consistent', 'trial %s has name %s' % (t['id'], t['name'])))
      if t['state'] not in ('REQUESTED', 'ACTIVE', 'STOPPING', 'SUCCEEDED', 'INFEASIBLE'):
        bad.append(('legal-state', 'trial %s in state %s' % (t['id'], t['state'])))
      if t['state'] in ('ACTIVE',) and not t['client']:
        bad.append(('active-has-owner', 'ACTIVE trial %s has no client_id' % t['id']))
      if t['state'] == 'REQUESTED' and t['client']:
        bad.append(('requested-unowned', 'REQUESTED trial %s has client_id %r' % (t['id'], t['client'])))
  for s, c, ops in d['ops']:
    for o in ops:
      o = dict(o)
      if not o['done']:
        bad.append(('quiescent-suggest-op', 'suggestion operation %s is left not done' % o['name']))
    nums = sorted(int(dict(o)['name'].rsplit('/', 1)[1]) for o in ops)
    if nums != list(range(1, len(nums) + 1)):
      bad.append(('op-numbering', 'operations of %s/%s numbered %s' % (s, c, nums)))
  for e in d['es']:
    e = dict(e)
    if e['status'] == 'ACTIVE':
      bad.append(('quiescent-earlystop-op', 'early-stopping operation %s is left ACTIVE' % e['name']))
  return bad


def transition_oracle(pre, post, cls, kind, studies=('s',)):
  """C01 clauses (1)-(4) on one transition. pre/post are canonical states."""
  bad = []
  for s in studies:
    a, b = trials_of(pre, s), trials_of(post, s)
    if a is None or b is None:
      continue
    if kind in ('DeleteStudy', 'CreateStudy'):
      continue
    bm = {t['id']: t for t in b}
    for t in a:
      u = bm.get(t['id'])
      if u is None:
        continue  # deleted
      if t['state'] != u['state'] and (t['state'], u['state']) not in LEGAL:
        bad.append(('illegal-transition', 'trial %s: %s -> %s by %s' % (t['id'], t['state'], u['state'], kind)))
      if t['params'] != u['params']:
        bad.append(('params-changed', 'trial %s parameters changed by %s' % (t['id'], kind)))
      if t['state'] in DONE:
        for f in ('state', 'meas', 'final', 'reason'):
          if t[f] != u[f]:
            bad.append(('completed-immutable', 'completed trial %s: %s changed by %s' % (t['id'], f, kind)))
  if cls != 'OK':
    pa, pb = dict(pre), dict(post)
    if pa['studies'] != pb['studies'] or pa['trials'] != pb['trials']:
      bad.append(('error-leaves-state', '%s failed with %s but stored data changed' % (kind, cls)))
  return bad


class ServiceSystem:
  """See module docstring. cfg keys: backends (list of kinds), model (bool), max_trials, max_meas, studies."""

  def __init__(self, pid, cfg, actions_fn):
    self.pid, self.cfg, self.actions_fn = pid, cfg, actions_fn
    self.kinds = cfg.get('backends', ['ram'])
    self.use_model = cfg.get('model', True)
    self.studies = tuple(cfg.get('studies', ('s',)))
    self.clients = tuple(cfg.get('clients', ('a', 'b')))
    self.max_trial_id = cfg.get('max_trial_id', cfg.get('max_id', 7) + 1)
    self.bs = []
    self._tmp = None
    for k in self.kinds:
      path = None
      if k == 'sqlfile':
        self._tmp = tempfile.mkdtemp(prefix='sqlfile-', dir=svc.scratch())
        path = os.path.join(self._tmp, 'v.db')
      self.bs.append(svc.Backend(k, path=path))
    self._empty = [b.snapshot() for b in self.bs]
    self.pruned = 0
    self._last = None
    self.reset()

  def hard_reset(self):
    """Brand-new server and datastore objects (nothing that a server object may keep in memory survives)."""
    if getattr(self, '_hard_ready', False) and all(b.kind == 'sqlfile' for b in self.bs):
      # SQLite file: put the empty database back, then open it with new server / datastore / engine objects
      for b, s in zip(self.bs, self._empty):
        b.restore(s)
        b.restart()
        if hasattr(b, '_others'):
          del b._others
      self.reset()
      return
    for b in self.bs:
      b.close()
    self.bs = []
    for k in self.kinds:
      path = None
      if k == 'sqlfile':
        if self._tmp is None:
          self._tmp = tempfile.mkdtemp(prefix='sqlfile-', dir=svc.scratch())
        path = os.path.join(self._tmp, 'v.db')
      self.bs.append(svc.Backend(k, path=path))
    self._empty = [b.snapshot() for b in self.bs]
    self._hard_ready = True
    self.reset()

  def reset(self):
    for b, s in zip(self.bs, self._empty):
      b.restore(s)
      b.env.__init__()
    svc.CLOCK.now = svc.BASE_T
    self.model = refmodel.Model() if self.use_model else None
    self.aux = {}
    self._cc = None  # cached canonical forms of the current state, one per backend

  def snapshot(self):
    return ([b.snapshot() for b in self.bs], svc.CLOCK.now, self.model.clone() if self.model else None, dict(self.aux),
            self.canons())

  def restore(self, snap):
    for b, s in zip(self.bs, snap[0]):
      b.restore(s)
    svc.CLOCK.now = snap[1]
    self.model = snap[2].clone() if snap[2] else None
    self.aux = dict(snap[3])
    self._cc = snap[4]

  def canons(self):
    if self._cc is None:
      self._cc = [self.canon(b) for b in self.bs]
    return self._cc

  def drop(self, snap):
    for s in snap[0]:
      if hasattr(s, 'close'):
        s.close()

  def canon(self, b):
    return b.canon(self.studies, self.clients, self.max_trial_id)

  def key(self):
    return tuple(self.canons())

  def last_outcome(self):
    return self._last

  def actions(self):
    return self.actions_fn(self)

  # -- one transition on every backend + oracles
  def apply(self, a):
    vios = []
    kind = a[0]
    self._cur = a
    pres = self.canons()
    now0 = svc.CLOCK.now
    outs = []
    calls_before = [b.env.stop_calls + b.env.factory_calls for b in self.bs]
    for b in self.bs:
      svc.CLOCK.now = now0
      outs.append(svc.apply(b, a))
    self._cc = None
    # termination and quiescence: every call returns, and no lock of the server stays held once it has returned
    stuck = False
    for b, (cls, view, raw) in zip(self.bs, outs):
      if cls == 'HANG':
        stuck = True
        vios.append(self.v('call-does-not-return', kind, pres[0], '%s did not return within %.0f s' % (kind, svc.CALL_TIMEOUT_S), b.kind))
        continue
      if b.pending_transaction():
        vios.append(self.v('uncommitted-transaction-after-call', kind, pres[0], '%s returned (%s) and left its SQL transaction open: what it wrote is acknowledged but not durable, and the next rollback undoes it' % (kind, cls), b.kind))
        b.settle()
      held = svc.held_locks(b.servicer)
      if held:
        stuck = True
        vios.append(self.v('lock-held-after-call', kind, pres[0], '%s returned (%s) but left %s held: every later call that needs it blocks for ever' % (kind, cls, ', '.join(held)), b.kind))
        b.restart()       # fresh server object on the same data, so that the exploration itself does not wedge
    posts = self.canons()
    self._last = outs[0][0]
    if stuck:
      return vios
    if kind in ('Tick', 'Restart', 'Switch'):
      for b, pre, post in zip(self.bs, pres, posts):
        if kind != 'Tick' and pre != post:
          vios.append(self.v('restart-preserves-state', kind, pre, 'stored data changed across a server restart / a switch to another server on the same data', b.kind))
      return vios
    env = svc.env_of(a)
    scripted_failure = bool(env.get('fail_suggest') or env.get('fail_stop') or env.get('fail_factory'))
    if env.get('md_trials') and not scripted_failure:
      ids0 = {t['id'] for t in (trials_of(pres[0], a[1]) or [])}
      scripted_failure = any(str(tid) not in ids0 for tid, _, _, _ in env['md_trials'])
    for b, pre, post, (cls, view, raw), calls0 in zip(self.bs, pres, posts, outs, calls_before):
      if cls.startswith('EXC:') and not scripted_failure:
        vios.append(self.v('undocumented-exception', kind, pre, '%s raised %s: %s' % (kind, cls[4:], str(raw)[:120]), b.kind))
      for clause, text in transition_oracle(pre, post, 'OK' if scripted_failure else cls, kind, self.studies):
        vios.append(self.v(clause, kind, pre, text, b.kind))
      for clause, text in invariants(post, self.studies):
        vios.append(self.v(clause, kind, pre, text, b.kind))
      if kind == 'CheckTrialEarlyStoppingState' and (cls == 'OK' or scripted_failure):
        # the algorithm must be consulted exactly when no recent answer is stored for this trial
        s_ = a[1]
        name = svc.resources.EarlyStoppingOperationResource(svc.owner_of(s_), svc.study_id(s_), a[2]).name
        rec = [dict(e) for e in dict(pre)['es'] if dict(e)['name'] == name]
        tr = [t for t in (trials_of(pre, s_) or []) if t['id'] == str(a[2])]
        st = study_of(pre, s_)
        legal = bool(tr) and tr[0]['state'] in ('ACTIVE', 'STOPPING') and st and st['state'] in ('ACTIVE', 'STATE_UNSPECIFIED')
        if legal:
          expect = 0 if (rec and rec[0]['fresh'] and rec[0]['status'] == 'DONE') else 1
          got = (b.env.stop_calls + b.env.factory_calls) - calls0
          if (got > 0) != (expect > 0):
            vios.append(self.v('earlystop-reaches-algorithm', kind, pre,
                               'early-stopping check %s the algorithm (stored record: %s)' % (
                                   'did not reach' if expect else 'unexpectedly reached', rec[0] if rec else None), b.kind))
    if len(self.bs) > 1 and self.cfg.get('differential', True):
      for i in range(1, len(self.bs)):
        who = '%s-vs-%s' % (self.bs[0].kind, self.bs[i].kind)
        if outs[0][0] != outs[i][0]:
          vios.append(self.v('backend-error-class', kind, pres[0], '%s: %s answers %s, %s answers %s' % (
              kind, self.bs[0].kind, outs[0][0], self.bs[i].kind, outs[i][0]), who))
        elif outs[0][1] != outs[i][1]:
          vios.append(self.v('backend-response', kind, pres[0], '%s: responses differ: %s | %s' % (
              kind, repr(outs[0][1])[:200], repr(outs[i][1])[:200]), who))
        if posts[0] != posts[i]:
          d0, d1 = dict(posts[0]), dict(posts[i])
          part = [k for k in d0 if d0[k] != d1.get(k)]
          vios.append(self.v('backend-state:' + '+'.join(part), kind, pres[0], 'stored state differs after %s in %s: %s | %s' % (
              kind, part, repr([d0[k] for k in part])[:300], repr([d1[k] for k in part])[:300]), who))
    if self.model is not None:
      b, pre, post, (cls, view, raw) = self.bs[0], pres[0], posts[0], outs[0]
      try:
        m2 = self.model.step(a, cls, view, post)
        pd = dict(post)
        if m2.canon(self.studies) != (pd['studies'], pd['trials']):
          vios.append(self.v('model-state', kind, pre, 'stored study/trials differ from the reference model after %s' % kind, b.kind,
                             extra={'model': repr(m2.canon(self.studies))[:600], 'impl': repr((pd['studies'], pd['trials']))[:600]}))
        self.model = m2
      except refmodel.Mismatch as e:
        vios.append(self.v(e.clause, kind, pre, e.why, b.kind))
      except Exception as e:  # pylint: disable=broad-except
        # the stored state / response has a shape the reference model of the documented API has no reading for
        vios.append(self.v('model-cannot-explain', kind, pre, 'the response / stored state after %s is malformed for the reference model: %r' % (kind, e), b.kind))
    return vios

  def pre_class(self, a, pre):
    """Coarse description of the call site: study state + target trial state (for signatures)."""
    s = a[1] if len(a) > 1 and isinstance(a[1], str) else 's'
    st = study_of(pre, s)
    out = 'study=%s' % (st['state'] if st else 'missing')
    if len(a) > 2 and isinstance(a[2], int) and a[0] not in ('SuggestTrials', 'GetOperation'):
      ts = trials_of(pre, s) or []
      t = [t for t in ts if t['id'] == str(a[2])]
      out += ',trial=%s' % (t[0]['state'] if t else 'missing')
    return out

  @staticmethod
  def arg_class(a):
    k = a[0]
    if k == 'CompleteTrial':
      return a[3]
    if k == 'CreateTrial':
      return a[2]
    if k == 'SetStudyState':
      return a[2]
    if k == 'UpdateMetadata':
      tg = sorted({'study' if d[0] is None else ('trial' if isinstance(d[0], int) else 'malformed-id') for d in a[2]})
      return '+'.join(tg)
    if k in ('SuggestTrials', 'CheckTrialEarlyStoppingState'):
      e = svc.env_of(a)
      return ','.join('%s=%s' % (kk, 'yes' if kk.startswith('md_') else v) for kk, v in sorted(e.items())) or 'default'
    return '-'

  def v(self, clause, kind, pre, text, backend, extra=None):
    sig = '%s|%s|%s|%s|%s' % (self.pid, clause, kind, self.arg_class(self._cur), self.pre_class(self._cur, pre))
    return {'sig': sig, 'desc': '[%s] %s' % (backend, text), 'case': extra}

  def close(self):
    for b in self.bs:
      b.close()
    if self._tmp:
      import shutil
      shutil.rmtree(self._tmp, ignore_errors=True)
