"""Process bootstrap shared by every check: sys.path, generated protos, equinox stand-in, quiet logging.

Must be imported (and `boot()` called) before any `vizier` import.
"""
import os
import sys

VERIF = os.path.dirname(os.path.dirname(os.path.abspath(__file__)))
REPO = os.environ.get('VIZIER_REPO', '/repo')
_done = False


def boot(gp=False):
  """gp=True is informational only (the equinox stand-in is always first on sys.path)."""
  global _done
  if _done:
    return
  os.environ.setdefault('TF_CPP_MIN_LOG_LEVEL', '3')
  os.environ.setdefault('JAX_PLATFORMS', 'cpu')
  os.environ.setdefault('XLA_PYTHON_CLIENT_PREALLOCATE', 'false')
  for p in (VERIF, REPO, os.path.join(VERIF, 'vfw', 'shims')):
    if p in sys.path:
      sys.path.remove(p)
  sys.path.insert(0, VERIF)
  sys.path.insert(0, REPO)
  sys.path.insert(0, os.path.join(VERIF, 'vfw', 'shims'))
  from vfw import protogen
  protogen.ensure()
  import vizier._src.service as _s
  if protogen.OUT not in list(_s.__path__):
    _s.__path__.append(protogen.OUT)
  try:
    from absl import logging as alog
    alog.set_verbosity(alog.FATAL)
    alog.set_stderrthreshold('fatal')
  except Exception:  # pylint: disable=broad-except
    pass
  import logging
  logging.disable(logging.CRITICAL)
  import warnings
  warnings.filterwarnings('ignore')
  _done = True
