"""Throwaway feasibility prototype: pure-python proto3 -> FileDescriptorProto -> *_pb2.py / *_pb2_grpc.py.

Custom options ((google.api.*), (google.longrunning.operation_info)) are dropped: they do not
affect message layout, wire format or python message behaviour.
"""
import re, sys, os
from google.protobuf import descriptor_pb2 as dpb

TOKEN = re.compile(r'''
   (?P<ws>\s+|//[^\n]*|/\*.*?\*/)
 | (?P<str>"(?:\\.|[^"\\])*"|'(?:\\.|[^'\\])*')
 | (?P<ident>[A-Za-z_][A-Za-z0-9_.]*)
 | (?P<num>-?[0-9][0-9a-fA-FxX.]*)
 | (?P<sym>[{}\[\]()<>=;,.:-])
''', re.S | re.X)

def tokenize(src):
  pos, out = 0, []
  while pos < len(src):
    m = TOKEN.match(src, pos)
    if not m: raise SyntaxError('bad token at %r' % src[pos:pos+30])
    pos = m.end()
    if m.lastgroup != 'ws': out.append((m.lastgroup, m.group()))
  return out

SCALARS = {
 'double': 1, 'float': 2, 'int64': 3, 'uint64': 4, 'int32': 5, 'fixed64': 6, 'fixed32': 7,
 'bool': 8, 'string': 9, 'bytes': 12, 'uint32': 13, 'sfixed32': 15, 'sfixed64': 16,
 'sint32': 17, 'sint64': 18}

class P:
  def __init__(self, toks): self.t, self.i = toks, 0
  def peek(self): return self.t[self.i][1] if self.i < len(self.t) else None
  def next(self): v = self.t[self.i][1]; self.i += 1; return v
  def expect(self, s):
    v = self.next()
    if v != s: raise SyntaxError('expected %r got %r near %r' % (s, v, self.t[max(0,self.i-6):self.i+3]))
  def skip_balanced(self, open_, close):
    depth = 0
    while True:
      v = self.next()
      if v == open_: depth += 1
      elif v == close:
        depth -= 1
        if depth == 0: return
  def skip_option_stmt(self):  # after 'option'
    while self.peek() != ';':
      if self.peek() == '{': self.skip_balanced('{', '}')
      else: self.next()
    self.expect(';')
  def skip_field_opts(self):
    if self.peek() == '[': self.skip_balanced('[', ']')

def parse_file(src, name):
  p = P(tokenize(src))
  fd = dpb.FileDescriptorProto(name=name)
  while p.peek() is not None:
    k = p.next()
    if k == 'syntax':
      p.expect('='); fd.syntax = p.next().strip('"\''); p.expect(';')
    elif k == 'package': fd.package = p.next(); p.expect(';')
    elif k == 'import':
      if p.peek() in ('public', 'weak'): p.next()
      fd.dependency.append(p.next().strip('"\'')); p.expect(';')
    elif k == 'option': p.skip_option_stmt()
    elif k == 'message': parse_message(p, fd.message_type.add())
    elif k == 'enum': parse_enum(p, fd.enum_type.add())
    elif k == 'service': parse_service(p, fd.service.add())
    elif k == ';': pass
    else: raise SyntaxError('top-level %r' % k)
  return fd

def parse_enum(p, ed):
  ed.name = p.next(); p.expect('{')
  while p.peek() != '}':
    k = p.next()
    if k == 'option': p.skip_option_stmt(); continue
    if k == 'reserved':
      while p.next() != ';': pass
      continue
    if k == ';': continue
    p.expect('='); num = int(p.next(), 0); p.skip_field_opts(); p.expect(';')
    ed.value.add(name=k, number=num)
  p.expect('}')

def parse_field(p, md, first, oneof_index=None):
  label = dpb.FieldDescriptorProto.LABEL_OPTIONAL; proto3_optional = False
  if first == 'repeated': label = dpb.FieldDescriptorProto.LABEL_REPEATED; first = p.next()
  elif first == 'optional': proto3_optional = True; first = p.next()
  if first == 'map': raise NotImplementedError('map fields')
  typ = first; name = p.next(); p.expect('='); num = int(p.next(), 0); p.skip_field_opts(); p.expect(';')
  f = md.field.add(name=name, number=num, label=label)
  f.json_name = re.sub(r'_([a-z0-9])', lambda m: m.group(1).upper(), name)
  if typ in SCALARS: f.type = SCALARS[typ]
  else: f.type_name = typ  # resolved later
  if oneof_index is not None: f.oneof_index = oneof_index
  if proto3_optional: f.proto3_optional = True
  return f

def parse_message(p, md):
  md.name = p.next(); p.expect('{')
  while p.peek() != '}':
    k = p.next()
    if k == 'option': p.skip_option_stmt()
    elif k == 'message': parse_message(p, md.nested_type.add())
    elif k == 'enum': parse_enum(p, md.enum_type.add())
    elif k == 'oneof':
      od = md.oneof_decl.add(name=p.next()); idx = len(md.oneof_decl) - 1; p.expect('{')
      while p.peek() != '}':
        kk = p.next()
        if kk == 'option': p.skip_option_stmt(); continue
        parse_field(p, md, kk, idx)
      p.expect('}')
    elif k == 'reserved':
      # reserved numbers / names: record numeric ranges only
      items = []
      while p.peek() != ';': items.append(p.next())
      p.expect(';')
      j = 0
      while j < len(items):
        it = items[j]
        if it == ',': j += 1; continue
        if it.startswith('"'): md.reserved_name.append(it.strip('"')); j += 1; continue
        lo = int(it, 0); hi = lo
        if j + 2 < len(items) and items[j+1] == 'to': hi = int(items[j+2], 0); j += 2
        md.reserved_range.add(start=lo, end=hi + 1); j += 1
    elif k == ';': pass
    else: parse_field(p, md, k)
  p.expect('}')
  # synthetic oneofs for proto3 optional must come after real oneofs
  for f in md.field:
    if f.proto3_optional:
      md.oneof_decl.add(name='_' + f.name); f.oneof_index = len(md.oneof_decl) - 1

def parse_service(p, sd):
  sd.name = p.next(); p.expect('{')
  while p.peek() != '}':
    k = p.next()
    if k == 'option': p.skip_option_stmt(); continue
    if k == ';': continue
    assert k == 'rpc', k
    m = sd.method.add(name=p.next())
    p.expect('(')
    if p.peek() == 'stream': p.next(); m.client_streaming = True
    m.input_type = p.next(); p.expect(')'); p.expect('returns'); p.expect('(')
    if p.peek() == 'stream': p.next(); m.server_streaming = True
    m.output_type = p.next(); p.expect(')')
    if p.peek() == '{': p.skip_balanced('{', '}')
    else: p.expect(';')
  p.expect('}')

def declared(fd):
  """full name -> 'message'|'enum' for everything declared in fd."""
  out = {}
  def walk(prefix, msgs, enums):
    for e in enums: out[prefix + e.name] = 'enum'
    for m in msgs:
      out[prefix + m.name] = 'message'
      walk(prefix + m.name + '.', m.nested_type, m.enum_type)
  walk((fd.package + '.') if fd.package else '', fd.message_type, fd.enum_type)
  return out

def resolve(fd, known):
  """known: full name -> kind, over this file and all transitive deps."""
  def lookup(name, scope):
    if name.startswith('.'): return name
    parts = scope.split('.') if scope else []
    first = name.split('.')[0]
    while True:
      cand = '.'.join(parts + [name])
      # protobuf rule: innermost scope where the FIRST component resolves
      firstcand = '.'.join(parts + [first])
      if firstcand in known or any(k.startswith(firstcand + '.') for k in known):
        if cand in known: return '.' + cand
      if not parts: break
      parts.pop()
    raise NameError('unresolved type %s in scope %s' % (name, scope))
  def fix_msg(m, scope):
    full = (scope + '.' if scope else '') + m.name
    for f in m.field:
      if f.type_name:
        fq = lookup(f.type_name, full); f.type_name = fq
        f.type = 14 if known[fq[1:]] == 'enum' else 11
    for n in m.nested_type: fix_msg(n, full)
  for m in fd.message_type: fix_msg(m, fd.package)
  for s in fd.service:
    for me in s.method:
      me.input_type = lookup(me.input_type, fd.package); me.output_type = lookup(me.output_type, fd.package)
