"""Service harness: backends (RAM / SQLite memory / SQLite file) with snapshot+restore, virtual clock,
scripted algorithm, action -> request encoding, response / state canonicalisation.

Everything here drives the *real* VizierServicer; nothing in /repo is modified.  Seams used:
  * vizier_service._get_current_time and vizier_service.datetime      (virtual clock)
  * PythiaServicer(servicer, policy_factory=...)                       (scripted algorithm, public seam)
  * servicer.datastore / SQLDataStore._connection                     (snapshots, crash proxy)
"""
import contextlib
import copy
import datetime as _real_datetime
import os
import signal
import sqlite3
import threading
import types as _types

from vfw import boot
boot.boot()

import grpc  # noqa: E402
from google.longrunning import operations_pb2  # noqa: E402
from google.protobuf import duration_pb2, timestamp_pb2  # noqa: E402
from vizier import pythia  # noqa: E402
from vizier import pyvizier as vz  # noqa: E402
from vizier._src.service import (constants, custom_errors, grpc_util, key_value_pb2, pythia_service,  # noqa: E402
                                 resources, study_pb2, vizier_oss_pb2, vizier_service)
from vizier._src.service import vizier_service_pb2 as vs  # noqa: E402
from vizier.service import pyvizier as svz  # noqa: E402

T = study_pb2.Trial.State
S = study_pb2.Study.State
OWNER = 'owners/o'
BASE_T = 1_700_000_000  # virtual epoch (seconds)
RECYCLE = 60


def scratch():
  """Run-scoped scratch directory (tmpfs when available); removed by the runner at the end."""
  d = os.environ.get('VERIF_TMP')
  if d and os.path.isdir(d):
    return d
  return '/dev/shm' if os.path.isdir('/dev/shm') else None


# ----------------------------------------------------------------------------------------------
# virtual clock (module-level because the servicer reads module attributes)
class VirtualClock:
  def __init__(self):
    self.now = BASE_T

  def timestamp(self):
    return timestamp_pb2.Timestamp(seconds=int(self.now))

  def utcnow(self):
    return _real_datetime.datetime.utcfromtimestamp(self.now)


CLOCK = VirtualClock()


class _DT(_real_datetime.datetime):
  @classmethod
  def utcnow(cls):
    return CLOCK.utcnow()


_dt_shim = _types.SimpleNamespace(datetime=_DT, timedelta=_real_datetime.timedelta)


def install_clock():
  vizier_service._get_current_time = CLOCK.timestamp
  vizier_service.datetime = _dt_shim


# ----------------------------------------------------------------------------------------------
# scripted algorithm
class ScriptEnv:
  """Environment answers for the next policy invocation(s); set by the explorer before each RPC."""

  def __init__(self):
    self.reset()
    self.suggest_calls = 0
    self.stop_calls = 0
    self.factory_calls = 0
    self.gate = None          # threading.Event: when set, policy.suggest blocks on it (C08 in-flight scenarios)
    self.entered = None       # threading.Event signalled when the policy is inside suggest
    self.label_seq = None     # when an int: suggestions are labelled from this counter instead of max_trial_id

  def reset(self):
    self.delta = 0            # deliver count+delta suggestions (count+delta clipped at 0)
    self.deliver_zero = False
    self.fail_suggest = None  # exception class name raised by policy.suggest
    self.fail_stop = None
    self.fail_factory = None
    self.fail_once = False    # the scripted failure happens at the first invocation only (a transient fault)
    self.fail_bare = False    # the exception carries no message at all (a failed assert, a bare raise NotImplementedError)
    self.stop_answer = False
    self.stop_extra_ids = ()  # decisions for further trial ids
    self.stop_omit_requested = False
    self.md_study = ()        # ((ns_tuple, key, value), ...) written by the algorithm on the study
    self.md_trials = ()       # ((trial_id, ns_tuple, key, value), ...)


class ScriptedError(Exception):
  pass


def _pythia_errors():
  from vizier._src.pythia import pythia_errors as pe
  return {n: getattr(pe, n) for n in ('TemporaryPythiaError', 'InactivateStudyError', 'PythiaFallbackError', 'LoadTooLargeError', 'CancelComputeError',
                                      'PythiaProtocolError', 'VizierDatabaseError') if hasattr(pe, n)}


_EXC = {'ValueError': ValueError, 'RuntimeError': RuntimeError, 'KeyError': KeyError,
        'ScriptedError': ScriptedError, 'TypeError': TypeError, 'AssertionError': AssertionError,
        'NotImplementedError': NotImplementedError, 'ZeroDivisionError': ZeroDivisionError}
_EXC.update(_pythia_errors())      # the error classes the algorithm interface itself documents ("try again later", ...)


def param_for(n):
  """Deterministic parameter value of the n-th generated suggestion (distinct for distinct n)."""
  return round(((n * 37) % 101) / 101.0, 6)


class ScriptedPolicy(pythia.Policy):
  def __init__(self, env, supporter):
    self._env, self._supporter = env, supporter

  def _delta(self):
    d = vz.MetadataDelta()
    for ns, k, v in self._env.md_study:
      d.on_study.abs_ns(vz.Namespace(ns))[k] = v
    for tid, ns, k, v in self._env.md_trials:
      d.on_trials[tid].abs_ns(vz.Namespace(ns))[k] = v
    return d

  def suggest(self, request):
    e = self._env
    e.suggest_calls += 1
    if e.gate is not None:
      gate = e.gate
      e.gate = None           # only the first computation is held
      if e.entered is not None:
        e.entered.set()
      gate.wait(timeout=20)
    if e.fail_suggest:
      exc = _EXC[e.fail_suggest]() if e.fail_bare else _EXC[e.fail_suggest]('scripted failure in suggest')
      if e.fail_once:
        e.fail_suggest = None
      raise exc
    k = 0 if e.deliver_zero else max(0, request.count + e.delta)
    base = request.max_trial_id
    if e.label_seq is not None:
      base = 50 + e.label_seq
      e.label_seq += k
    sugg = [vz.TrialSuggestion({'x': param_for(base + i + 1)}) for i in range(k)]
    return pythia.SuggestDecision(sugg, self._delta())

  def early_stop(self, request):
    e = self._env
    e.stop_calls += 1
    if e.fail_stop:
      exc = _EXC[e.fail_stop]() if e.fail_bare else _EXC[e.fail_stop]('scripted failure in early_stop')
      if e.fail_once:
        e.fail_stop = None
      raise exc
    ids = [] if e.stop_omit_requested else sorted(request.trial_ids or [])
    ids += [i for i in e.stop_extra_ids if i not in ids]
    ds = [pythia.EarlyStopDecision(id=i, reason='scripted', should_stop=bool(e.stop_answer)) for i in ids]
    return pythia.EarlyStopDecisions(ds, self._delta())

  @property
  def should_be_cached(self):
    return False


class ScriptedFactory(pythia.PolicyFactory):
  def __init__(self, env, fallback=None):
    self.env, self.fallback = env, fallback

  def __call__(self, problem_statement, algorithm, policy_supporter, study_name):
    self.env.factory_calls += 1
    if self.env.fail_factory:
      raise (_EXC[self.env.fail_factory]() if self.env.fail_bare else _EXC[self.env.fail_factory]('scripted failure in policy factory'))
    if self.fallback is not None and algorithm not in ('SCRIPTED', 'RANDOM_SEARCH'):
      return self.fallback(problem_statement, algorithm, policy_supporter, study_name)
    return ScriptedPolicy(self.env, policy_supporter)


# ----------------------------------------------------------------------------------------------
def study_spec(algorithm='SCRIPTED', metrics=(('m', 'MAXIMIZE'),), with_default_stopping=False):
  sc = svz.StudyConfig(algorithm=algorithm)
  sc.search_space.root.add_float_param('x', 0.0, 1.0)
  for name, goal in metrics:
    sc.metric_information.append(vz.MetricInformation(name, goal=getattr(vz.ObjectiveMetricGoal, goal)))
  return sc.to_proto()


_SPEC_CACHE = {}


def spec(algorithm='SCRIPTED', metrics=(('m', 'MAXIMIZE'),)):
  k = (algorithm, tuple(metrics))
  if k not in _SPEC_CACHE:
    _SPEC_CACHE[k] = study_spec(algorithm, metrics)
  return _SPEC_CACHE[k]


def measurement(value=1.0, step=0, metric='m', extra=None):
  m = study_pb2.Measurement(step_count=step)
  m.metrics.add(metric_id=metric, value=float(value))
  for k, v in (extra or {}).items():
    m.metrics.add(metric_id=k, value=float(v))
  return m


def owner_of(s):
  """Study keys are 'id' (owner o) or 'owner@id'."""
  return s.split('@', 1)[0] if '@' in s else 'o'


def study_id(s):
  return s.split('@', 1)[1] if '@' in s else s


def owner_name(s):
  return 'owners/%s' % owner_of(s)


def study_name(s='s'):
  return 'owners/%s/studies/%s' % (owner_of(s), study_id(s))


def trial_name(i, s='s'):
  return '%s/trials/%d' % (study_name(s), i)


# ----------------------------------------------------------------------------------------------
class Backend:
  """One real VizierServicer on one datastore kind, with snapshot / restore / restart."""

  def __init__(self, kind, path=None, scripted=True, fallback_factory=None, recycle_s=RECYCLE):
    assert kind in ('ram', 'sqlmem', 'sqlfile')
    self.kind, self.path, self.scripted = kind, path, scripted
    self.env = ScriptEnv()
    self._fallback = fallback_factory
    self._recycle = recycle_s
    install_clock()
    self.servicer = self._new_servicer(fresh=True)

  def _url(self):
    if self.kind == 'ram':
      return None
    if self.kind == 'sqlmem':
      return constants.SQL_MEMORY_URL
    return 'sqlite:///' + self.path

  def _new_servicer(self, fresh, datastore=None):
    if self.kind == 'sqlfile' and fresh and os.path.exists(self.path):
      os.remove(self.path)
    s = vizier_service.VizierServicer(
        database_url=self._url(), early_stop_recycle_period=_real_datetime.timedelta(seconds=self._recycle))
    if datastore is not None:
      s.datastore = datastore
    if self.scripted:
      s.default_pythia_service = pythia_service.PythiaServicer(
          s, policy_factory=ScriptedFactory(self.env, self._fallback))
    return s

  @property
  def ds(self):
    return self.servicer.datastore

  def raw(self):
    return self.ds._connection.connection.dbapi_connection  # sqlite3.Connection

  def restart(self):
    """New server object on the same stored data (what a process restart leaves)."""
    if self.kind in ('ram', 'sqlmem'):
      self.servicer = self._new_servicer(fresh=False, datastore=self.ds)
    else:
      try:
        self.ds._connection.close()
        self.ds._engine.dispose()
      except Exception:  # pylint: disable=broad-except
        pass
      self.servicer = self._new_servicer(fresh=False)

  def close(self):
    if self.kind != 'ram':
      try:
        self.ds._connection.close()
        self.ds._engine.dispose()
      except Exception:  # pylint: disable=broad-except
        pass
    if self.kind == 'sqlfile' and self.path and os.path.exists(self.path):
      os.remove(self.path)

  def pending_transaction(self):
    """True if the SQL connection of the server is inside a transaction although no call is in progress: whatever was
    written there has been acknowledged but is not durable, and is undone by the next rollback."""
    if self.kind == 'ram':
      return False
    try:
      return bool(self.raw().in_transaction)
    except Exception:  # pylint: disable=broad-except
      return False

  def settle(self):
    """Commits a transaction left open by the code under test (what the next successful write would do), so that the
    exploration can go on after the finding has been reported."""
    if self.kind != 'ram':
      try:
        self.ds._connection.commit()
      except Exception:  # pylint: disable=broad-except
        try:
          self.raw().commit()
        except Exception:  # pylint: disable=broad-except
          pass

  def switch(self):
    """Two live server objects over one stored state (two worker processes with the default local client; two replicas):
    toggles which of them serves the next calls. sqlfile: separate datastore objects on one file; otherwise a shared one."""
    if not hasattr(self, '_others'):
      other = self._new_servicer(fresh=False) if self.kind == 'sqlfile' else self._new_servicer(fresh=False, datastore=self.ds)
      self._others = [other]
    self._others.append(self.servicer)
    self.servicer = self._others.pop(0)

  # -- snapshots
  def snapshot(self):
    if self.kind == 'ram':
      return copy.deepcopy(self.ds._owners)
    if self.pending_transaction():
      self.settle()          # a backup of a connection with an open write transaction would wait for ever
    snap = sqlite3.connect(':memory:')
    self.raw().backup(snap)
    return snap

  def restore(self, snap):
    if self.kind == 'ram':
      self.ds._owners = copy.deepcopy(snap)
    else:
      r = self.raw()
      if r.in_transaction:
        r.rollback()
      snap.backup(r)

  # -- canonical state through the public datastore API
  def canon(self, studies=('s',), clients=('a', 'b'), max_trial=8, now=None):
    return canon_state(self.ds, studies, clients, max_trial, CLOCK.now if now is None else now, self._recycle)


def _kv_view(kvs):
  out = []
  for kv in kvs:
    if kv.HasField('proto'):
      out.append((kv.ns, kv.key, 'proto', kv.proto.type_url, bytes(kv.proto.value)))
    else:
      out.append((kv.ns, kv.key, 'str', kv.value))
  return tuple(out)


def _meas_view(m):
  return (tuple((x.metric_id, x.value) for x in m.metrics), m.step_count,
          (m.elapsed_duration.seconds, m.elapsed_duration.nanos))


def trial_view(t):
  """Structured, timestamp-free view of a Trial proto (order of repeated fields preserved)."""
  return {
      'id': t.id, 'name': t.name, 'state': T.Name(t.state), 'client': t.client_id,
      'params': tuple((p.parameter_id, p.value.WhichOneof('kind'),
                       getattr(p.value, p.value.WhichOneof('kind')) if p.value.WhichOneof('kind') else None)
                      for p in t.parameters),
      'meas': tuple(_meas_view(m) for m in t.measurements),
      'final': _meas_view(t.final_measurement) if t.HasField('final_measurement') else None,
      'reason': t.infeasible_reason,
      'md': _kv_view(t.metadata),
  }


def study_view(st):
  sp = copy.deepcopy(st.study_spec)
  md = _kv_view(sp.metadata)
  del sp.metadata[:]
  return {'name': st.name, 'display': st.display_name, 'state': S.Name(st.state), 'md': md,
          'spec': sp.SerializeToString(deterministic=True)}


def op_view(op):
  ids = None
  if op.response.value:
    ids = tuple(t.id for t in vs.SuggestTrialsResponse.FromString(op.response.value).trials)
  return {'name': op.name, 'done': op.done, 'error': op.HasField('error'), 'ids': ids}


def es_view(op, now, recycle):
  fresh = None
  if op.HasField('completion_time'):
    fresh = (now - op.completion_time.seconds) < recycle
  return {'name': op.name, 'status': vizier_oss_pb2.EarlyStoppingOperation.Status.Name(op.status),
          'stop': op.should_stop, 'fresh': fresh}


def freeze(x):
  if isinstance(x, dict):
    return tuple(sorted((k, freeze(v)) for k, v in x.items()))
  if isinstance(x, (list, tuple)):
    return tuple(freeze(v) for v in x)
  return x


def canon_state(ds, studies, clients, max_trial, now, recycle):
  """Canonical form of everything the RPCs can observe. Trials sorted by id; list order is compared
  separately by C07 through ListTrials responses."""
  out = {}
  sts, flags = [], []
  for ow in sorted({owner_of(s) for s in studies} | {'o'}):
    try:
      sts += ds.list_studies('owners/' + ow)
      flags.append((ow, True))
    except custom_errors.NotFoundError:
      flags.append((ow, False))
  out['owner'] = flags[0][1] if len(flags) == 1 else tuple(flags)
  out['studies'] = tuple(sorted((freeze(study_view(s)) for s in sts), key=repr))
  present = {s.name for s in sts}
  tr, ops, es = [], [], []
  for s in studies:
    name = study_name(s)
    if name in present:
      ts = ds.list_trials(name)
      tr.append((s, tuple(freeze(trial_view(t)) for t in sorted(ts, key=lambda t: int(t.id)))))
    for c in clients:
      try:
        lst = ds.list_suggestion_operations(name, c)
      except custom_errors.NotFoundError:
        lst = []
      ops.append((s, c, tuple(sorted((freeze(op_view(o)) for o in lst), key=repr))))
    for i in range(1, max_trial + 1):
      n = resources.EarlyStoppingOperationResource(owner_of(s), study_id(s), i).name
      try:
        o = ds.get_early_stopping_operation(n)
      except KeyError:
        continue
      es.append(freeze(es_view(o, now, recycle)))
  out['trials'] = tuple(tr)
  out['ops'] = tuple(ops)
  out['es'] = tuple(es)
  return freeze(out)


# ----------------------------------------------------------------------------------------------
# error classes
def err_class(e):
  if isinstance(e, grpc.RpcError):
    try:
      return e.code().name
    except Exception:  # pylint: disable=broad-except
      return 'RPC_ERROR'
  if isinstance(e, custom_errors.NotFoundError):
    return 'NOT_FOUND'
  if isinstance(e, custom_errors.AlreadyExistsError):
    return 'ALREADY_EXISTS'
  if isinstance(e, (custom_errors.ImmutableStudyError, custom_errors.ImmutableTrialError)):
    return 'FAILED_PRECONDITION'
  if isinstance(e, ValueError):
    return 'UNKNOWN'  # handle_exception maps any other error to UNKNOWN
  return 'EXC:' + type(e).__name__


# ----------------------------------------------------------------------------------------------
# actions: (kind, args...) tuples of plain values; build_request turns one into the request proto
def build_request(a):
  k = a[0]
  if k == 'CreateStudy':      # ('CreateStudy', study, algorithm)
    return vs.CreateStudyRequest(parent=owner_name(a[1]), study=study_pb2.Study(
        display_name=study_id(a[1]), study_spec=spec(a[2] if len(a) > 2 else 'SCRIPTED')))
  if k == 'CreateStudyMd':    # a study whose spec metadata is neither sorted nor free of repeated keys
    sp = study_pb2.StudySpec()
    sp.CopyFrom(spec())
    for ns, key, val in (('', 'zeta', 'first'), ('n', 'k', 'v'), ('', 'alpha', 'a'), ('', 'zeta', 'second')):
      sp.metadata.add(ns=ns, key=key, value=val)
    return vs.CreateStudyRequest(parent=owner_name(a[1]), study=study_pb2.Study(display_name=study_id(a[1]), study_spec=sp))
  if k == 'CreateStudyNamed':  # request carrying study.name (documented invalid)
    return vs.CreateStudyRequest(parent=OWNER, study=study_pb2.Study(
        name=study_name(a[1]), display_name=a[1], study_spec=spec()))
  if k == 'CreateStudyNoDisplay':
    return vs.CreateStudyRequest(parent=OWNER, study=study_pb2.Study(study_spec=spec()))
  if k == 'GetStudy':
    return vs.GetStudyRequest(name=study_name(a[1]))
  if k == 'ListStudies':
    return vs.ListStudiesRequest(parent=a[1] if len(a) > 1 else OWNER)
  if k == 'DeleteStudy':
    return vs.DeleteStudyRequest(name=study_name(a[1]))
  if k == 'SetStudyState':    # ('SetStudyState', study, 'INACTIVE')
    return vs.SetStudyStateRequest(parent=study_name(a[1]), state=S.Value(a[2]))
  if k == 'SuggestTrials':    # ('SuggestTrials', study, client, count, env-dict)
    return vs.SuggestTrialsRequest(parent=study_name(a[1]), client_id=a[2], suggestion_count=a[3])
  if k == 'GetOperation':     # ('GetOperation', study, client, number)
    return operations_pb2.GetOperationRequest(
        name=resources.SuggestionOperationResource(owner_of(a[1]), study_id(a[1]), a[2], a[3]).name)
  if k == 'CreateTrial':      # ('CreateTrial', study, kind, x) kind in requested|succeeded|infeasible|active
    t = study_pb2.Trial()
    t.parameters.add(parameter_id='x').value.number_value = a[3]
    if a[2] == 'succeeded':
      t.state = T.SUCCEEDED
      t.final_measurement.CopyFrom(measurement(a[3]))
    elif a[2] == 'infeasible':
      t.state = T.INFEASIBLE
      t.infeasible_reason = 'r'
    elif a[2] == 'active':
      t.state = T.ACTIVE
      t.client_id = 'z'
    return vs.CreateTrialRequest(parent=study_name(a[1]), trial=t)
  if k == 'GetTrial':
    return vs.GetTrialRequest(name=trial_name(a[2], a[1]))
  if k == 'ListTrials':
    return vs.ListTrialsRequest(parent=study_name(a[1]))
  if k == 'AddTrialMeasurement':  # (.., study, id, value)
    return vs.AddTrialMeasurementRequest(trial_name=trial_name(a[2], a[1]),
                                         measurement=measurement(a[3], step=int(a[3] * 10)))
  if k == 'CompleteTrial':    # (.., study, id, mode) mode in final|none|infeasible|infeasible+final
    r = vs.CompleteTrialRequest(name=trial_name(a[2], a[1]))
    if a[3] in ('final', 'infeasible+final'):
      r.final_measurement.CopyFrom(measurement(a[4] if len(a) > 4 else 2.0))
    if a[3].startswith('infeasible'):
      r.trial_infeasible = True
      r.infeasible_reason = '' if a[3] == 'infeasible-noreason' else 'bad'     # an infeasible completion need not give a reason
    return r
  if k == 'StopTrial':
    return vs.StopTrialRequest(name=trial_name(a[2], a[1]))
  if k == 'DeleteTrial':
    return vs.DeleteTrialRequest(name=trial_name(a[2], a[1]))
  if k == 'CheckTrialEarlyStoppingState':  # (.., study, id, env)
    return vs.CheckTrialEarlyStoppingStateRequest(trial_name=trial_name(a[2], a[1]))
  if k == 'ListOptimalTrials':
    return vs.ListOptimalTrialsRequest(parent=study_name(a[1]))
  if k == 'UpdateMetadata':   # (.., study, ((trial_id|None, ns, key, value), ...))
    r = vs.UpdateMetadataRequest(name=study_name(a[1]))
    for tid, ns, key, val in a[2]:
      u = r.delta.add()
      if tid is not None:
        u.trial_id = str(tid)
      u.metadatum.ns = ns
      u.metadatum.key = key
      if isinstance(val, tuple) and val and val[0] == 'proto':
        u.metadatum.proto.Pack(duration_pb2.Duration(seconds=val[1]))
      else:
        u.metadatum.value = val
    return r
  raise KeyError(k)


def env_of(a):
  """The environment-answer dict of an action, if any (last element when it is a dict / frozen dict)."""
  if a and isinstance(a[-1], tuple) and a[-1] and a[-1][0] == 'env':
    return dict(a[-1][1:])
  return {}


def response_view(kind, r):
  """Timestamp-free structured view of a response."""
  if isinstance(r, study_pb2.Study):
    return ('Study', freeze(study_view(r)))
  if isinstance(r, study_pb2.Trial):
    return ('Trial', freeze(trial_view(r)))
  if isinstance(r, vs.ListStudiesResponse):
    return ('Studies', tuple(freeze(study_view(s)) for s in r.studies))
  if isinstance(r, vs.ListTrialsResponse):
    return ('Trials', tuple(freeze(trial_view(t)) for t in r.trials))
  if isinstance(r, vs.ListOptimalTrialsResponse):
    return ('Optimal', tuple(freeze(trial_view(t)) for t in r.optimal_trials))
  if isinstance(r, operations_pb2.Operation):
    tr = None
    if r.response.value:
      tr = tuple(freeze(trial_view(t)) for t in vs.SuggestTrialsResponse.FromString(r.response.value).trials)
    return ('Operation', r.name, r.done, r.HasField('error'), tr)
  if isinstance(r, vs.CheckTrialEarlyStoppingStateResponse):
    return ('EarlyStop', r.should_stop)
  if isinstance(r, vs.UpdateMetadataResponse):
    return ('UpdateMetadata', bool(r.error_details))
  return (type(r).__name__,)


class Wedged(BaseException):
  """A call into the code under test did not return within the deadline."""


CALL_TIMEOUT_S = float(os.environ.get('VERIF_CALL_TIMEOUT_S', '30'))


@contextlib.contextmanager
def deadline(seconds=None):
  """Bounds one call into the code under test (main thread only; a blocked lock acquisition, condition wait or gRPC
  wait is interrupted by the alarm). A call that is still running when the alarm fires raises Wedged."""
  if threading.current_thread() is not threading.main_thread():
    yield
    return

  def on_alarm(signum, frame):
    raise Wedged()
  old = signal.signal(signal.SIGALRM, on_alarm)
  signal.setitimer(signal.ITIMER_REAL, seconds or CALL_TIMEOUT_S)
  try:
    yield
  finally:
    signal.setitimer(signal.ITIMER_REAL, 0)
    signal.signal(signal.SIGALRM, old)


def held_locks(servicer):
  """Names of the locks of a servicer that are held although no call is in progress (found by introspection, whatever
  the attributes are called)."""
  held = []
  for attr, val in list(vars(servicer).items()):
    if hasattr(val, 'locked') and callable(val.locked):
      if val.locked():
        held.append(attr)
    elif isinstance(val, dict):
      for k, v in list(val.items()):
        if hasattr(v, 'locked') and callable(v.locked) and v.locked():
          held.append('%s[%r]' % (attr, k))
  return held


def call(backend, a):
  """Thread-safe variant of apply(): no environment answers are touched. Returns (class, view)."""
  k = a[0]
  req = build_request(a)
  try:
    with deadline():
      r = getattr(backend.servicer, k if not k.startswith('CreateStudy') else 'CreateStudy')(req)
  except Wedged:
    return 'HANG', ('error', 'DOES-NOT-RETURN')
  except Exception as e:  # pylint: disable=broad-except
    return err_class(e), ('error', type(e).__name__)
  return 'OK', response_view(k, r)


def apply(backend, a):
  """Executes one action on a backend. Returns (err_class or 'OK', response_view or None, raw response)."""
  k = a[0]
  if k == 'Tick':               # environment: the clock passes the recycle period
    CLOCK.now += RECYCLE + 1
    return 'OK', ('Tick',), None
  if k == 'Restart':
    backend.restart()
    return 'OK', ('Restart',), None
  if k == 'Switch':
    backend.switch()
    return 'OK', ('Switch',), None
  backend.env.reset()
  for kk, v in env_of(a).items():
    setattr(backend.env, kk, v)
  req = build_request(a)
  try:
    with deadline():
      r = getattr(backend.servicer, k if not k.startswith('CreateStudy') else 'CreateStudy')(req)
  except Wedged:
    backend.restart()       # the old server object may hold its locks for ever
    return 'HANG', None, None
  except Exception as e:  # pylint: disable=broad-except
    return err_class(e), None, e
  view = response_view(k, r)
  _scribble(r)
  _scribble(req)
  return 'OK', view, r


def _scribble(msg):
  """Pass-by-value check: overwrite a returned (or passed) message in place. If the datastore handed out or kept
  a reference to its own copy, the stored state changes and the next canonical-state comparison shows it."""
  try:
    for t in list(getattr(msg, 'trials', [])) + list(getattr(msg, 'optimal_trials', [])) + list(getattr(msg, 'studies', [])):
      _scribble(t)
    if isinstance(msg, study_pb2.Trial):
      msg.state = study_pb2.Trial.State.INFEASIBLE
      msg.client_id = 'scribbled'
      msg.measurements.add().step_count = 99
      del msg.parameters[:]
    elif isinstance(msg, study_pb2.Study):
      msg.display_name = 'scribbled'
      msg.state = study_pb2.Study.State.COMPLETED
      msg.study_spec.metadata.add(key='scribbled', value='x')
    elif hasattr(msg, 'trial') and isinstance(getattr(msg, 'trial', None), study_pb2.Trial):
      _scribble(msg.trial)
    elif hasattr(msg, 'study') and isinstance(getattr(msg, 'study', None), study_pb2.Study):
      _scribble(msg.study)
    elif isinstance(msg, operations_pb2.Operation):
      msg.done = False
      msg.ClearField('response')
  except Exception:  # pylint: disable=broad-except
    pass
