"""MANIFEST.setup_cmd: builds what the checks need from files on disk only (generated protobuf modules)."""
import os
import sys

VERIF = os.path.dirname(os.path.dirname(os.path.abspath(__file__)))
sys.path.insert(0, VERIF)
sys.path.insert(0, os.environ.get('VIZIER_REPO', '/repo'))
from vfw import protogen  # noqa: E402

if __name__ == '__main__':
  protogen.ensure(verbose=True)
  from vfw import boot
  boot.boot()
  from vizier._src.service import vizier_service  # noqa: F401  (import smoke test)
  print('setup ok')
