import boot, numpy as np
from absl import logging as alog; alog.set_verbosity(alog.FATAL)
from vizier import pyvizier as vz
F=vz.ParameterConfig.factory
cfgs={'double[0,1]':F('p',bounds=(0.0,1.0)),'int[0,2]':F('p',bounds=(0,2)),'disc[1,2.5]':F('p',feasible_values=[1,2.5]),'cat[a,1]':F('p',feasible_values=['a','1']),}
ss=vz.SearchSpace(); ss.root.add_bool_param('p'); cfgs['bool']=ss.get('p')
vals=[0,1,2,3,-1,0.0,1.0,0.5,2.5,1.0000000001,float('nan'),float('inf'),True,False,'a','1','True','False','0.5','',np.float64(1.0),np.int64(1),np.str_('a')]
print('%-14s'%'value', *['%-12s'%k for k in cfgs])
for v in vals:
    row=[]
    for k,c in cfgs.items():
        try: r=c.contains(v)
        except Exception as e: r='EXC:'+type(e).__name__
        row.append('%-12s'%r)
    print('%-14r'%(v,), *row)
print('--- factory edge cases')
tests={
 'bounds (True,False)': dict(bounds=(True,False)),
 'bounds (0,1.0) mixed': dict(bounds=(0,1.0)),
 'bounds (1.0,0.0) reversed': dict(bounds=(1.0,0.0)),
 'bounds (0.0,inf)': dict(bounds=(0.0,float('inf'))),
 'bounds (nan,1.0)': dict(bounds=(float('nan'),1.0)),
 'bounds (0,0)': dict(bounds=(0,0)),
 'feasible [1,1.0] dup': dict(feasible_values=[1,1.0]),
 'feasible [1,"a"] mixed': dict(feasible_values=[1,'a']),
 'feasible [nan]': dict(feasible_values=[float('nan')]),
 'feasible [] empty': dict(feasible_values=[]),
 'feasible [True,False]': dict(feasible_values=[True,False]),
 'default out of range': dict(bounds=(0.0,1.0), default_value=5.0),
 'default wrong type': dict(bounds=(0.0,1.0), default_value='a'),
 'cat default not member': dict(feasible_values=['a','b'], default_value='z'),
 'children under double': dict(bounds=(0.0,1.0), children=[([0.5], F('c',bounds=(0,1)))]),
 'children under int, bad parent value': dict(bounds=(0,1), children=[([7], F('c',bounds=(0,1)))]),
 'log scale negative': dict(bounds=(-1.0,1.0), scale_type=vz.ScaleType.LOG),
}
for k,kw in tests.items():
    try: c=F('p',**kw); print('%-40s ACCEPTED type=%s bounds=%s fv=%s default=%r'%(k,c.type.name,c._bounds,c._feasible_values,c.default_value))
    except Exception as e: print('%-40s REJECTED %s: %s'%(k,type(e).__name__,str(e)[:60]))
try: F('', bounds=(0,1)); print('empty name ACCEPTED')
except Exception as e: print('empty name REJECTED', type(e).__name__)
s=vz.SearchSpace(); s.root.add_float_param('a',0,1)
try: s.root.add_float_param('a',0,1); print('dup name ACCEPTED')
except Exception as e: print('dup name REJECTED', type(e).__name__)
