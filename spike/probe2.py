import boot, time, traceback, sys, threading
import grpc
from vizier.service import pyvizier as vz
from vizier._src.service import vizier_service, vizier_service_pb2 as vs, study_pb2, key_value_pb2, constants
from vizier import pythia
from vizier._src.service import pythia_service

def mk(algo='RANDOM_SEARCH'):
    sc = vz.StudyConfig(algorithm=algo)
    sc.search_space.root.add_float_param('w', 0.0, 5.0)
    sc.metric_information.append(vz.MetricInformation('m', goal=vz.ObjectiveMetricGoal.MAXIMIZE))
    return sc

def servicer(url):
    return vizier_service.VizierServicer(database_url=url)

print('--- C06 wedge: SHUFFLED_GRID_SEARCH (broken factory) in-process')
s = servicer(None)
st = s.CreateStudy(vs.CreateStudyRequest(parent='owners/o', study=study_pb2.Study(display_name='s', study_spec=mk('SHUFFLED_GRID_SEARCH').to_proto())))
for i in range(2):
    try:
        op = s.SuggestTrials(vs.SuggestTrialsRequest(parent=st.name, suggestion_count=1, client_id='c'))
        print('call', i, 'returned op done=', op.done, 'error=', op.HasField('error'), op.name)
    except Exception as e:
        print('call', i, 'raised', type(e).__name__, str(e)[:80])

print('--- C07/C10: failed metadata update (missing trial) RAM vs SQL')
for url in (None, constants.SQL_MEMORY_URL):
    s = servicer(url)
    st = s.CreateStudy(vs.CreateStudyRequest(parent='owners/o', study=study_pb2.Study(display_name='s', study_spec=mk().to_proto())))
    req = vs.UpdateMetadataRequest(name=st.name)
    req.delta.add(metadatum=key_value_pb2.KeyValue(key='k', ns='', value='v'))
    req.delta.add(trial_id='9', metadatum=key_value_pb2.KeyValue(key='k', ns='', value='v'))
    try:
        r = s.UpdateMetadata(req)
        print(url, 'resp error_details=', repr(r.error_details))
    except Exception as e:
        print(url, 'raised', type(e).__name__, e)
    print(url, 'study metadata after failed update:', [(kv.ns,kv.key,kv.value) for kv in s.GetStudy(vs.GetStudyRequest(name=st.name)).study_spec.metadata])

print('--- C07: delete + recreate study, op numbering')
for url in (None, constants.SQL_MEMORY_URL):
    s = servicer(url)
    def create():
        return s.CreateStudy(vs.CreateStudyRequest(parent='owners/o', study=study_pb2.Study(display_name='s', study_spec=mk().to_proto())))
    st = create()
    op = s.SuggestTrials(vs.SuggestTrialsRequest(parent=st.name, suggestion_count=1, client_id='c'))
    s.DeleteStudy(vs.DeleteStudyRequest(name=st.name))
    st = create()
    op2 = s.SuggestTrials(vs.SuggestTrialsRequest(parent=st.name, suggestion_count=1, client_id='c'))
    print(url, op.name, '->', op2.name, 'trials', [t.id for t in s.ListTrials(vs.ListTrialsRequest(parent=st.name)).trials])
