import boot, time, traceback, sys, threading
import grpc
from vizier.service import clients, pyvizier as vz
from vizier._src.service import vizier_service, vizier_client, vizier_server, vizier_service_pb2, study_pb2, key_value_pb2, constants
from vizier._src.service import resources

def mk(algo='RANDOM_SEARCH'):
    sc = vz.StudyConfig(algorithm=algo)
    sc.search_space.root.add_float_param('w', 0.0, 5.0)
    sc.metric_information.append(vz.MetricInformation('m', goal=vz.ObjectiveMetricGoal.MAXIMIZE))
    return sc

print('--- probe A: gRPC loopback')
t=time.time()
srv = vizier_server.DefaultVizierServer(database_url=constants.SQL_MEMORY_URL)
print('server up', srv.endpoint, '%.2fs'%(time.time()-t))
clients.environment_variables.server_endpoint = srv.endpoint
study = clients.Study.from_study_config(mk(), owner='o', study_id='s')
tr = study.suggest(count=2)
print('suggested', [t.id for t in tr])
try:
    study.get_trial(77)
except Exception as e:
    print('get_trial(77) over grpc ->', type(e).__name__, getattr(e,'code',lambda:None)())
try:
    clients.Study.from_resource_name('owners/o/studies/nope')
except Exception as e:
    print('from_resource_name missing over grpc ->', type(e).__name__)
t=time.time()
for i in range(50): study.materialize_state()
print('50 rpcs %.3fs'%(time.time()-t))

print('--- probe A2: distributed pythia')
t=time.time()
srv2 = vizier_server.DistributedPythiaVizierServer(database_url=constants.SQL_MEMORY_URL)
clients.environment_variables.server_endpoint = srv2.endpoint
study2 = clients.Study.from_study_config(mk(), owner='o', study_id='s')
print('suggested', [t.id for t in study2.suggest(count=2)], '%.2fs'%(time.time()-t))

print('--- local')
clients.environment_variables.server_endpoint = constants.NO_ENDPOINT
clients.environment_variables.servicer_kwargs['database_url'] = None
study3 = clients.Study.from_study_config(mk(), owner='o', study_id='s')
try:
    study3.get_trial(77)
except Exception as e:
    print('get_trial(77) local ->', type(e).__name__)
