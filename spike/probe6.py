import boot, numpy as np, itertools
from absl import logging as alog; alog.set_verbosity(alog.FATAL)
from vizier import pyvizier as vz
from vizier._src.pyvizier.shared import common
from vizier._src.pyvizier.oss import proto_converters as pc
from vizier._src.pyvizier.multimetric import pareto_optimal as po
from vizier._src.jax import xla_pareto
from vizier import pythia

print('--- C10 namespace')
a=common.Namespace(('a\\','b')); b=common.Namespace(('a:b',))
print(repr(a.encode()), repr(b.encode()), a.encode()==b.encode(), common.Namespace.decode(common.Namespace(('a\\',)).encode()))

print('--- C09 default 0.0 / nanos / grandchild')
p = vz.ParameterConfig.factory('x', bounds=(-1.0,1.0), default_value=0.0)
print('default after roundtrip:', pc.ParameterConfigConverter.from_proto(pc.ParameterConfigConverter.to_proto(p)).default_value)
m = vz.Measurement(metrics={'m':1.0}, elapsed_secs=1.5)
print('elapsed after roundtrip:', pc.MeasurementConverter.from_proto(pc.MeasurementConverter.to_proto(m)).elapsed_secs)
ss = vz.SearchSpace(); r=ss.root
r.add_categorical_param('model',['dnn','lin'])
d = r.select('model',['dnn']); d.add_int_param('layers',1,2)
d.select('layers',[2]).add_float_param('drop',0.0,1.0)
cfg = ss.get('model')
back = pc.ParameterConfigConverter.from_proto(pc.ParameterConfigConverter.to_proto(cfg))
def names(c): return [x.name for x in c.traverse()]
print('tree before', names(cfg), 'after', names(back))

print('--- C11 fast pareto tie')
naive=po.NaiveParetoOptimalAlgorithm()
bad=None; n=0
for thr in (1,2,3):
  fast=po.FastParetoOptimalAlgorithm(recursive_threshold=thr)
  for k in (2,3,4):
    for pts in itertools.product(itertools.product([0,1,2],repeat=2), repeat=k):
      P=np.array(pts,dtype=float); n+=1
      try:
        f=fast.is_pareto_optimal(P); g=naive.is_pareto_optimal(P)
        if not np.array_equal(np.asarray(f).reshape(-1), g) and bad is None: bad=(thr,pts,list(np.asarray(f).reshape(-1)),list(g))
      except Exception as e:
        if bad is None: bad=(thr,pts,'EXC',repr(e)[:80])
print('cases',n,'first disagreement:',bad)
print('is_frontier num_shards=1 on [[0],[1]]:', xla_pareto.is_frontier(np.array([[0.],[1.]]), num_shards=1))

print('--- C11 GetBestTrials')
prob = vz.ProblemStatement(); prob.search_space.root.add_float_param('x',0,1)
prob.metric_information.append(vz.MetricInformation('m', goal=vz.ObjectiveMetricGoal.MAXIMIZE))
sup = pythia.InRamPolicySupporter(prob)
ts=[vz.Trial(parameters={'x':0.1}), vz.Trial(parameters={'x':0.2}), vz.Trial(parameters={'x':0.3})]
ts[0].complete(vz.Measurement({'m':1.0})); ts[1].complete(vz.Measurement({'m':1.0})); ts[2].complete(vz.Measurement({'m':5.0}), infeasibility_reason='bad')
sup.AddTrials(ts)
print('best (ties 1,2; infeasible 3 has m=5):', [t.id for t in sup.GetBestTrials()])
prob2 = vz.ProblemStatement(); prob2.search_space.root.add_float_param('x',0,1)
prob2.metric_information.extend([vz.MetricInformation('a', goal=vz.ObjectiveMetricGoal.MAXIMIZE), vz.MetricInformation('b', goal=vz.ObjectiveMetricGoal.MAXIMIZE)])
sup2 = pythia.InRamPolicySupporter(prob2)
t1=vz.Trial(parameters={'x':0.1}); t1.complete(vz.Measurement({'a':1.0,'b':1.0})); t2=vz.Trial(parameters={'x':0.2})
sup2.AddTrials([t2, t1])
print('multiobjective with one ACTIVE trial first:', [t.id for t in sup2.GetBestTrials()])
