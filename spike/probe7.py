import boot, numpy as np
from absl import logging as alog; alog.set_verbosity(alog.FATAL)
from vizier import pyvizier as vz, algorithms as vza
from vizier._src.algorithms.evolution import nsga2
from vizier._src.service import vizier_service, vizier_service_pb2 as vs, study_pb2, pythia_service
from vizier import pythia
from vizier._src.algorithms.policies import designer_policy as dp
from vizier.service import pyvizier as svz

print('--- C13 NSGA2 restart')
prob = vz.ProblemStatement(); prob.search_space.root.add_float_param('x',0.0,1.0)
prob.metric_information.append(vz.MetricInformation('m', goal=vz.ObjectiveMetricGoal.MAXIMIZE))
def mkd(): return nsga2.NSGA2Designer(prob, population_size=4, first_survival_after=4, seed=1)
d = mkd(); tid=0
for step in range(3):
    sug = d.suggest(2); trials=[]
    for s in sug:
        tid+=1; t=s.to_trial(tid); t.complete(vz.Measurement({'m': t.parameters['x'].value})); trials.append(t)
    d.update(vza.CompletedTrials(trials), vza.ActiveTrials([]))
print('live: num_trials_seen', d._num_trials_seen, 'phase', 'mutation' if d._num_trials_seen>=d._first_survival_after else 'sampling', 'pop', len(d.population))
d2 = mkd(); d2.load(d.dump())
print('restored: num_trials_seen', d2._num_trials_seen, 'phase', 'mutation' if d2._num_trials_seen>=d2._first_survival_after else 'sampling', 'pop', len(d2.population))

print('--- C12 id reuse after deleting max-id trial (service, recording designer)')
log=[]
class Rec(vza.PartiallySerializableDesigner):
    def __init__(self, problem, seed=None): self.n=0
    def update(self, completed, all_active): log.append((sorted(t.id for t in completed.trials), sorted(t.id for t in all_active.trials)))
    def suggest(self, count=None): return [vz.TrialSuggestion({'x': 0.5}) for _ in range(count or 1)]
    def dump(self): md=vz.Metadata(); md['n']='1'; return md
    def load(self, md): pass
class F(pythia.PolicyFactory):
    def __call__(self, problem, algorithm, supporter, study_name):
        return dp.PartiallySerializableDesignerPolicy(problem, supporter, Rec)
s = vizier_service.VizierServicer(database_url=None)
s.default_pythia_service = pythia_service.PythiaServicer(s, policy_factory=F())
sc = svz.StudyConfig(algorithm='X'); sc.search_space.root.add_float_param('x',0.0,1.0)
sc.metric_information.append(vz.MetricInformation('m', goal=vz.ObjectiveMetricGoal.MAXIMIZE))
st = s.CreateStudy(vs.CreateStudyRequest(parent='owners/o', study=study_pb2.Study(display_name='s', study_spec=sc.to_proto())))
def sug(n): 
    op=s.SuggestTrials(vs.SuggestTrialsRequest(parent=st.name, suggestion_count=n, client_id='c')); return [t.id for t in vs.SuggestTrialsResponse.FromString(op.response.value).trials]
def comp(i): s.CompleteTrial(vs.CompleteTrialRequest(name=f'{st.name}/trials/{i}', final_measurement=study_pb2.Measurement(metrics=[study_pb2.Measurement.Metric(metric_id='m', value=1.0)])))
print('suggest', sug(2)); comp(1); comp(2)
print('suggest', sug(1), 'log', log[-1])
s.DeleteTrial(vs.DeleteTrialRequest(name=f'{st.name}/trials/3'))
s.DeleteTrial(vs.DeleteTrialRequest(name=f'{st.name}/trials/2'))
print('after deleting 3 and 2, suggest', sug(1)); comp(2)
print('suggest', sug(1), 'log', log[-1], '<- completed trial 2 (new) delivered?')
