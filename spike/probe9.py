import boot, numpy as np, warnings
warnings.filterwarnings('ignore')
from absl import logging as alog; alog.set_verbosity(alog.FATAL)
from vizier._src.algorithms.designers.gp import output_warpers as ow
for tup in [(-1e6,-1.0,np.nan), (0.0,1.0,np.nan), (0.0,1.0), (0.0,1.0,2.0,np.nan), (0.0, 1.0, 3.0, 7.0, np.nan), (-1e6,0.0,1e-9)]:
    y=np.array(tup).reshape(-1,1)
    print('input', tup)
    x=y.copy()
    for w in ow.create_default_warper().warpers:
        x=w.warp(x); print('   after', type(w).__name__, x.flatten().tolist())
