import boot, numpy as np, itertools, collections, warnings, math, time
warnings.filterwarnings('ignore')
from absl import logging as alog; alog.set_verbosity(alog.FATAL)
from vizier import pyvizier as vz, algorithms as vza
from vizier._src.algorithms.designers import random as rnd, quasi_random, grid
from vizier._src.algorithms.designers.eagle_strategy import eagle_strategy
from vizier._src.algorithms.evolution import nsga2
from vizier._src.pythia import suggest_default
F=vz.ParameterConfig.factory; S=vz.ScaleType
cat = {
 'd01': F('p',bounds=(0.0,1.0)), 'd-55': F('p',bounds=(-5.0,5.0)), 'dlog': F('p',bounds=(1e-3,1e3),scale_type=S.LOG),
 'drlog': F('p',bounds=(1e-3,1e3),scale_type=S.REVERSE_LOG), 'dsingle': F('p',bounds=(2.0,2.0)), 'dhuge': F('p',bounds=(-1e9,1e9)),
 'dtiny': F('p',bounds=(1e-300,1e-299)), 'dlog0': F('p',bounds=(0.0,1.0),scale_type=S.LOG), 'ddef_out': F('p',bounds=(0.0,1.0),default_value=5.0),
 'i00': F('p',bounds=(0,0)), 'i-22': F('p',bounds=(-2,2)), 'i015': F('p',bounds=(0,15)), 'ilog': F('p',bounds=(1,1000),scale_type=S.LOG),
 'k7': F('p',feasible_values=[7]), 'k2': F('p',feasible_values=[0.3,7.2]), 'k12': F('p',feasible_values=[float(i)**2 for i in range(12)]),
 'kneg': F('p',feasible_values=[-3.5,-1,2]), 'klog': F('p',feasible_values=[1,10,100],scale_type=S.LOG),
 'c1': F('p',feasible_values=['a']), 'c2': F('p',feasible_values=['a','b']), 'c5': F('p',feasible_values=list('abcde')),
}
def member(pc, v):
    v = v.value if isinstance(v, vz.ParameterValue) else v
    if pc.type==vz.ParameterType.DOUBLE: return isinstance(v,(int,float)) and pc.bounds[0]<=v<=pc.bounds[1]
    if pc.type==vz.ParameterType.INTEGER: return isinstance(v,(int,float)) and float(v).is_integer() and pc.bounds[0]<=v<=pc.bounds[1]
    if pc.type==vz.ParameterType.DISCRETE: return isinstance(v,(int,float)) and float(v) in [float(x) for x in pc.feasible_values]
    return isinstance(v,str) and v in pc.feasible_values
def problem(pc):
    p=vz.ProblemStatement(); p.search_space.add(pc); p.metric_information.append(vz.MetricInformation('m',goal=vz.ObjectiveMetricGoal.MAXIMIZE)); return p
designers = {
 'random': lambda p: rnd.RandomDesigner(p.search_space, seed=1),
 'quasi': lambda p: quasi_random.QuasiRandomDesigner(p.search_space, seed=1),
 'grid': lambda p: grid.GridSearchDesigner(p.search_space),
 'shufgrid': lambda p: grid.GridSearchDesigner(p.search_space, shuffle_seed=1),
 'eagle': lambda p: eagle_strategy.EagleStrategyDesigner(p, seed=1),
 'nsga2': lambda p: nsga2.NSGA2Designer(p, population_size=4, first_survival_after=4, seed=1),
 'default_seed': None,
}
res=collections.defaultdict(dict); t=time.time()
for cn,pc in cat.items():
    p=problem(pc)
    for dn,mk in designers.items():
        try:
            if mk is None:
                sugg=[vz.TrialSuggestion(suggest_default.get_default_parameters(p.search_space))]; out=[sugg]
            else:
                d=mk(p); out=[]; tid=0
                for step in range(6):
                    sugg=list(d.suggest(2)); out.append(sugg); trials=[]
                    for s in sugg:
                        tid+=1; tr=s.to_trial(tid)
                        if tid%4==0: tr.complete(vz.Measurement(), infeasibility_reason='x')
                        else: tr.complete(vz.Measurement({'m': float(tid%3)}))
                        trials.append(tr)
                    d.update(vza.CompletedTrials(trials), vza.ActiveTrials([]))
            bad=[(dict(s.parameters.as_dict())) for batch in out for s in batch if set(s.parameters)!={'p'} or not member(pc, s.parameters['p'])]
            res[cn][dn]='ok' if not bad else 'BAD %r'%(bad[0],)
        except Exception as e:
            res[cn][dn]='ERR '+type(e).__name__+': '+str(e)[:40]
print('%.1fs'%(time.time()-t))
for cn in cat:
    row=[f'{dn}={v}' for dn,v in res[cn].items() if v!='ok']
    print('%-9s'%cn, 'all ok' if not row else ' | '.join(row))
