import boot, time
from vizier.service import pyvizier as vz
from vizier._src.service import vizier_service, vizier_service_pb2 as vs, study_pb2, constants
import logging; logging.disable(logging.CRITICAL)
from absl import logging as alog; alog.set_verbosity(alog.FATAL)
def mk(algo='RANDOM_SEARCH'):
    sc = vz.StudyConfig(algorithm=algo)
    sc.search_space.root.add_float_param('w', 0.0, 5.0)
    sc.metric_information.append(vz.MetricInformation('m', goal=vz.ObjectiveMetricGoal.MAXIMIZE))
    return sc
spec = mk().to_proto()
for url in (None, constants.SQL_MEMORY_URL, 'sqlite:////tmp/proto/x.db'):
    import os
    if os.path.exists('/tmp/proto/x.db'): os.remove('/tmp/proto/x.db')
    t=time.time(); n=100
    for i in range(n):
        s = vizier_service.VizierServicer(database_url=url)
        if url and 'x.db' in url:
            # fresh file each time
            pass
        st = s.CreateStudy(vs.CreateStudyRequest(parent='owners/o', study=study_pb2.Study(display_name='s%d'%i, study_spec=spec)))
        op = s.SuggestTrials(vs.SuggestTrialsRequest(parent=st.name, suggestion_count=2, client_id='c'))
        s.CompleteTrial(vs.CompleteTrialRequest(name=st.name+'/trials/1', final_measurement=study_pb2.Measurement(metrics=[study_pb2.Measurement.Metric(metric_id='m', value=1.0)])))
        s.ListTrials(vs.ListTrialsRequest(parent=st.name))
    print(url, '%.2f ms per (new servicer + 4 rpcs)'%((time.time()-t)/n*1000))
