import boot, time, traceback, sys
from vizier.service import clients, pyvizier as vz
from vizier._src.service import vizier_service, vizier_client
clients.environment_variables.servicer_kwargs['database_url'] = None
def mk(algo):
    sc = vz.StudyConfig(algorithm=algo)
    sc.search_space.root.add_float_param('w', 0.0, 5.0)
    sc.search_space.root.add_int_param('x', -2, 2)
    sc.search_space.root.add_discrete_param('y', [0.3, 7.2])
    sc.search_space.root.add_categorical_param('z', ['a', 'g', 'k'])
    sc.metric_information.append(vz.MetricInformation('m', goal=vz.ObjectiveMetricGoal.MAXIMIZE))
    return sc
for algo in sys.argv[1:]:
    t=time.time()
    try:
        study = clients.Study.from_study_config(mk(algo), owner='o', study_id='s_'+algo)
        for i in range(3):
            for s in study.suggest(count=2):
                p = s.parameters
                s.complete(vz.Measurement({'m': p['w']**2 - p['y']**2 + p['x']*ord(p['z'])}))
        print('OK', algo, len(list(study.trials())), '%.1fs'%(time.time()-t), [t.id for t in study.optimal_trials()])
    except Exception as e:
        print('FAIL', algo, type(e).__name__, str(e)[:300])
        tb=traceback.extract_tb(e.__traceback__)
        for fr in tb[-4:]: print('    ', fr.filename.replace('/repo/',''), fr.lineno, fr.line)
