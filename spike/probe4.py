import boot, time, sqlite3, os
from vizier.service import pyvizier as vz
from vizier._src.service import vizier_service, vizier_service_pb2 as vs, study_pb2, constants
from absl import logging as alog; alog.set_verbosity(alog.FATAL)
def mk(algo='RANDOM_SEARCH'):
    sc = vz.StudyConfig(algorithm=algo)
    sc.search_space.root.add_float_param('w', 0.0, 5.0)
    sc.metric_information.append(vz.MetricInformation('m', goal=vz.ObjectiveMetricGoal.MAXIMIZE))
    return sc
spec = mk().to_proto()
s = vizier_service.VizierServicer(database_url=constants.SQL_MEMORY_URL)
ds = s.datastore
raw = ds._connection.connection.dbapi_connection
print('raw conn type', type(raw), 'in_transaction', raw.in_transaction)
st = s.CreateStudy(vs.CreateStudyRequest(parent='owners/o', study=study_pb2.Study(display_name='s', study_spec=spec)))
# snapshot
t=time.time()
snap = sqlite3.connect(':memory:'); raw.backup(snap)
print('snapshot %.2f ms'%((time.time()-t)*1000))
s.SuggestTrials(vs.SuggestTrialsRequest(parent=st.name, suggestion_count=2, client_id='c'))
print('trials now', len(s.ListTrials(vs.ListTrialsRequest(parent=st.name)).trials))
t=time.time(); snap.backup(raw); print('restore %.2f ms'%((time.time()-t)*1000))
print('trials after restore', len(s.ListTrials(vs.ListTrialsRequest(parent=st.name)).trials))

# crash interception: proxy the sqlalchemy connection
class Crash(BaseException): pass
class ConnProxy:
    def __init__(self, real, crash_at=None): self._r=real; self.events=[]; self.crash_at=crash_at
    def _ev(self, kind, what=''):
        self.events.append((kind, what))
        if self.crash_at is not None and len(self.events)-1 == self.crash_at: raise Crash(len(self.events)-1)
    def execute(self, q, *a, **k):
        self._ev('execute', str(q).split()[0]); return self._r.execute(q, *a, **k)
    def commit(self): self._ev('commit'); return self._r.commit()
    def rollback(self): self._ev('rollback'); return self._r.rollback()
    def __getattr__(self, n): return getattr(self._r, n)
path='/tmp/proto/crash.db'
if os.path.exists(path): os.remove(path)
s = vizier_service.VizierServicer(database_url='sqlite:///'+path)
st = s.CreateStudy(vs.CreateStudyRequest(parent='owners/o', study=study_pb2.Study(display_name='s', study_spec=spec)))
p = ConnProxy(s.datastore._connection); s.datastore._connection = p
s.SuggestTrials(vs.SuggestTrialsRequest(parent=st.name, suggestion_count=2, client_id='c'))
print('SuggestTrials SQL events:', len(p.events), [e[0][0]+':'+e[1] for e in p.events])
# now crash run at event k on a fresh db
for k in (8, 14):
    if os.path.exists(path): os.remove(path)
    s = vizier_service.VizierServicer(database_url='sqlite:///'+path)
    st = s.CreateStudy(vs.CreateStudyRequest(parent='owners/o', study=study_pb2.Study(display_name='s', study_spec=spec)))
    p = ConnProxy(s.datastore._connection, crash_at=k); s.datastore._connection = p
    try:
        s.SuggestTrials(vs.SuggestTrialsRequest(parent=st.name, suggestion_count=2, client_id='c'))
    except Crash as c: print('crashed at event', c)
    # simulate process death: drop the dbapi connection without commit
    p._r.connection.dbapi_connection.close()
    s2 = vizier_service.VizierServicer(database_url='sqlite:///'+path)
    tr = s2.ListTrials(vs.ListTrialsRequest(parent=st.name)).trials
    op = s2.SuggestTrials(vs.SuggestTrialsRequest(parent=st.name, suggestion_count=2, client_id='c'))
    print(' after restart: trials', [(t.id, study_pb2.Trial.State.Name(t.state)) for t in tr], '| retry suggest op.done =', op.done, op.name)
os.remove(path)
