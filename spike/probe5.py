"""Baton scheduler spike: 2 real threads, scheduling points = lock acquire + datastore op entry."""
import boot, threading, collections, time, itertools
from vizier.service import pyvizier as vz
from vizier._src.service import vizier_service, vizier_service_pb2 as vs, study_pb2, constants, key_value_pb2
from absl import logging as alog; alog.set_verbosity(alog.FATAL)

class Sched:
    def __init__(self, choices): self.choices=list(choices); self.i=0; self.trace=[]; self.threads={}; self.cur=None; self.main=threading.Semaphore(0)
    def spawn(self, tid, fn):
        sem=threading.Semaphore(0); st={'sem':sem,'done':False,'blocked_on':None,'res':None}
        def run():
            sem.acquire()
            try: st['res']=('ok', fn())
            except BaseException as e: st['res']=('err', type(e).__name__, str(e)[:60])
            st['done']=True; self.main.release()
        th=threading.Thread(target=run, daemon=True); st['th']=th; self.threads[tid]=st; th.start()
    def point(self, what):
        tid=self.cur; st=self.threads[tid]; self.trace.append((tid, what))
        self.main.release(); st['sem'].acquire()      # hand control to scheduler, wait to be resumed
    def enabled(self):
        return [t for t,s in self.threads.items() if not s['done'] and (s['blocked_on'] is None or not s['blocked_on'].held)]
    def run(self):
        npoints=[]
        while True:
            en=self.enabled()
            if not en:
                if all(s['done'] for s in self.threads.values()): return npoints
                raise RuntimeError('DEADLOCK')
            # default: keep running current thread if enabled, else lowest id
            order=([self.cur] if self.cur in en else [])+[t for t in en if t!=self.cur]
            c=self.choices[self.i] if self.i<len(self.choices) else 0
            self.i+=1; npoints.append(len(order)); self.cur=order[c]
            self.threads[self.cur]['sem'].release(); self.main.acquire()
class SLock:
    sched=None
    def __init__(self): self.held=False
    def __enter__(self):
        s=SLock.sched; s.point('acquire'); st=s.threads[s.cur]
        while self.held:
            st['blocked_on']=self; s.point('blocked')
        st['blocked_on']=None; self.held=True
    def __exit__(self,*a): self.held=False
class DSProxy:
    def __init__(self, real): self._r=real
    def __getattr__(self, n):
        f=getattr(self._r,n)
        if not callable(f): return f
        def w(*a,**k):
            SLock.sched.point('ds.'+n); return f(*a,**k)
        return w

def mk():
    sc = vz.StudyConfig(algorithm='RANDOM_SEARCH'); sc.search_space.root.add_float_param('w', 0.0, 5.0)
    sc.metric_information.append(vz.MetricInformation('m', goal=vz.ObjectiveMetricGoal.MAXIMIZE)); return sc
spec=mk().to_proto()

def execute(choices):
    s = vizier_service.VizierServicer(database_url=None)
    st = s.CreateStudy(vs.CreateStudyRequest(parent='owners/o', study=study_pb2.Study(display_name='s', study_spec=spec)))
    s.SuggestTrials(vs.SuggestTrialsRequest(parent=st.name, suggestion_count=1, client_id='c'))
    sched=Sched(choices); SLock.sched=sched
    s._study_name_to_lock=collections.defaultdict(SLock); s._operation_lock=collections.defaultdict(SLock); s._owner_name_to_lock=collections.defaultdict(SLock)
    s.datastore._lock=threading.Lock()  # leaf lock, never contended under the baton
    real=s.datastore; s.datastore=DSProxy(real)
    m=study_pb2.Measurement(metrics=[study_pb2.Measurement.Metric(metric_id='m', value=1.0)])
    sched.spawn(0, lambda: s.CompleteTrial(vs.CompleteTrialRequest(name=st.name+'/trials/1', final_measurement=m)).state)
    req=vs.UpdateMetadataRequest(name=st.name); req.delta.add(trial_id='1', metadatum=key_value_pb2.KeyValue(key='k', value='v'))
    sched.spawn(1, lambda: s.UpdateMetadata(req).error_details)
    npts=sched.run()
    t=real.get_trial(st.name+'/trials/1')
    return npts, sched.trace, (sched.threads[0]['res'], sched.threads[1]['res'], study_pb2.Trial.State.Name(t.state), [(kv.key,kv.value) for kv in t.metadata])

# stateless DFS over choice sequences (no preemption bound here, tiny example)
t0=time.time(); outcomes=collections.Counter(); n=0; stack=[[]]
while stack:
    pre=stack.pop(); npts,trace,out=execute(pre); n+=1; outcomes[str(out)]+=1
    for i in range(len(pre), len(npts)):
        for alt in range(1, npts[i]): stack.append(pre+[0]*(i-len(pre))+[alt])
print('schedules', n, '%.2fs'%(time.time()-t0))
for o,c in outcomes.items(): print(c, o)
