import boot, time, numpy as np, warnings
warnings.filterwarnings('ignore')
from absl import logging as alog; alog.set_verbosity(alog.FATAL)
import jax, jax.numpy as jnp
jax.config.update('jax_enable_x64', True)
from vizier import pyvizier as vz
from vizier.pyvizier import converters
from vizier._src.algorithms.optimizers import vectorized_base as vb, eagle_strategy as es, random_vectorized_optimizer as rvo
from vizier._src.jax import types

def problem(nc, cats):
    p = vz.ProblemStatement()
    for i in range(nc): p.search_space.root.add_float_param(f'x{i}', 0.0, 1.0)
    for i,k in enumerate(cats): p.search_space.root.add_categorical_param(f'c{i}', [str(j) for j in range(k)])
    p.metric_information.append(vz.MetricInformation('m', goal=vz.ObjectiveMetricGoal.MAXIMIZE))
    return p
def score(target):
    def f(x, seed=None):
        # x: ModelInput with .continuous/.categorical PaddedArray
        c = x.continuous.padded_array
        return -jnp.sum((c - target)**2, axis=-1)
    return f

for name, fac in [('eagle', es.VectorizedEagleStrategyFactory()), ('random', None)]:
  for nc,cats in [(2,[]),(1,[3])]:
    p = problem(nc,cats)
    conv = converters.TrialToModelInputConverter.from_problem(p)
    t=time.time()
    if fac is None:
        opt = rvo.create_random_optimizer(conv, max_evaluations=100, suggestion_batch_size=5) if hasattr(rvo,'create_random_optimizer') else None
    else:
        opt = vb.VectorizedOptimizerFactory(strategy_factory=fac, max_evaluations=100, suggestion_batch_size=5, use_fori=True)(conv)
    if opt is None: print('no random factory fn:', [n for n in dir(rvo) if 'reate' in n or 'Factory' in n]); continue
    # prior exactly at optimum
    prior_trials=[vz.Trial(parameters={**{f'x{i}':0.3 for i in range(nc)}, **{f'c{i}':'1' for i in range(len(cats))}})]
    prior = conv.to_features(prior_trials)
    res = opt(score(0.3), count=2, seed=jax.random.PRNGKey(1))
    t1=time.time()-t
    res2 = opt(score(0.3), count=2, seed=jax.random.PRNGKey(1), prior_features=prior)
    print(name, (nc,cats), 'first call %.1fs, second %.1fs'%(t1, time.time()-t-t1))
    print('   rewards no prior', np.asarray(res.rewards), ' with prior at optimum (score 0):', np.asarray(res2.rewards))
    print('   cont feats', np.asarray(res.features.continuous).round(3).tolist(), 'cat', np.asarray(res.features.categorical).tolist())
