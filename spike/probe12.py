import datetime, time
base = 1790000000
bad=0; first=None; t=time.time()
for us in range(0,1000000):
    dt = datetime.datetime.fromtimestamp(base) + datetime.timedelta(microseconds=us)
    secs = datetime.datetime.timestamp(dt)
    s=int(secs); n=int(1e9*(secs-s))
    back = datetime.datetime.fromtimestamp(s + 1e-9*n)
    if back != dt:
        bad+=1
        if first is None: first=(us, dt.isoformat(), back.isoformat(), n)
print('microseconds checked 1e6 in %.1fs; mismatches'%(time.time()-t), bad, first)
