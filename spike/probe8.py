import boot, numpy as np, itertools, collections, time, warnings
warnings.filterwarnings('ignore')
from absl import logging as alog; alog.set_verbosity(alog.FATAL)
from vizier._src.algorithms.designers.gp import output_warpers as ow
A=[-1e6,-1.0,0.0,1e-9,1.0,1+1e-9,1e6,np.nan,-np.inf]
def check(mk, name, maxlen=4):
    viol=collections.Counter(); ex={}; n=0; t=time.time()
    for L in range(1,maxlen+1):
        for tup in itertools.product(A, repeat=L):
            y=np.array(tup,dtype=float).reshape(-1,1); y0=y.copy(); n+=1
            w=mk()
            try: out=np.asarray(w.warp(y))
            except Exception as e:
                k='raise:'+type(e).__name__; viol[k]+=1; ex.setdefault(k,(tup,str(e)[:60])); continue
            def v(k): viol[k]+=1; ex.setdefault(k,(tup,out.flatten().tolist()))
            if not np.array_equal(y, y0, equal_nan=True): v('mutated')
            if out.shape!=y.shape: v('shape'); continue
            if not np.isfinite(out).all(): v('nonfinite'); continue
            fin=np.isfinite(y0).flatten(); o=out.flatten(); yy=y0.flatten()
            if fin.any() and (~fin).any() and o[~fin].max()>o[fin].min(): v('infeasible_above_worst')
            idx=np.where(fin)[0]
            for i in idx:
                for j in idx:
                    if yy[i]<yy[j] and o[i]>o[j]: v('reversal'); break
                    if yy[i]<yy[j] and o[i]==o[j]: v('merged_distinct'); break
                    if yy[i]==yy[j] and o[i]!=o[j]: v('split_equal'); break
                else: continue
                break
    print(name, 'cases',n,'%.1fs'%(time.time()-t), dict(viol))
    for k,e in ex.items(): print('    ',k,e)
check(lambda: ow.create_default_warper(), 'default')
check(lambda: ow.create_warp_outliers_warper(), 'outliers', 3)
check(lambda: ow.OutputWarperPipeline([ow.HalfRankComponent()]), 'halfrank-only',3)
check(lambda: ow.OutputWarperPipeline([ow.LogWarperComponent()]), 'log-only',3)
check(lambda: ow.OutputWarperPipeline([ow.InfeasibleWarperComponent()]), 'infeasible-only',3)
