import os, sys
os.environ.setdefault('TF_CPP_MIN_LOG_LEVEL', '3')
sys.path.insert(0, '/repo')
sys.path.insert(0, '/tmp/proto/shims')
import vizier._src.service as _s
_s.__path__.append('/tmp/proto/gen/vizier/_src/service')
