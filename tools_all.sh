#!/bin/bash
# runs every registered quick (or $1=thorough) check and prints the summary lines
cd "$(dirname "$0")"
tier=${1:-quick}
for id in $(/venv/bin/python -c "import json;print(' '.join(c['property_id'] for c in json.load(open('MANIFEST.json'))['checks']))"); do
  ./check $id --tier $tier 2>&1 | grep -E "^(VIOLATION|KNOWN-FINDING|HARNESS|C[0-9]+ tier)" | cut -c1-250
done
