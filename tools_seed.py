#!/venv/bin/python
"""Helpers for the seeded-change workflow (DESIGN.md section 6).

  tools_seed.py prompt <Cxx> <tag>     prints the sub-agent prompt for one property and creates its worktree
  tools_seed.py verify <dir>           applies <dir>/patch.diff in a fresh worktree: baseline tests + demo with/without
  tools_seed.py detect <dir> <Cxx> [tier]   applies the patch to /repo, runs ./check, restores /repo
"""
import json
import os
import subprocess
import sys

VERIF = os.path.dirname(os.path.abspath(__file__))
BASE = 'cd {wt} && /venv/bin/python -m pytest -q -p no:cacheprovider --timeout=900 --continue-on-collection-errors'


def prop(pid):
  for l in open(os.path.join(VERIF, 'properties.jsonl')):
    d = json.loads(l)
    if d['id'] == pid:
      return d
  raise KeyError(pid)


def sh(cmd, **kw):
  return subprocess.run(cmd, shell=True, capture_output=True, text=True, **kw)


def prompt(pid, tag):
  d = prop(pid)
  wt = '/tmp/wt_%s_%s' % (pid.lower(), tag)
  out = '/tmp/seed_%s_%s' % (pid.lower(), tag)
  sh('git -C /repo worktree remove --force %s' % wt)
  r = sh('git -C /repo worktree add --detach %s HEAD' % wt)
  os.makedirs(out, exist_ok=True)
  avoid = ''
  prev = []
  for t in 'abcdefgh':
    mp = os.path.join(os.path.dirname(os.path.abspath(__file__)), 'seeded', '%s-%s' % (pid, t), 'meta.json')
    if os.path.exists(mp) and t != tag:
      m = json.load(open(mp))
      prev.append('%s (%s)' % (', '.join(m.get('files', [])), m.get('summary', '')[:160].replace('\n', ' ')))
  if tag >= 'd':
    avoid = 'STYLE FOR THIS ROUND: put the change in a supporting module the behaviour depends on (a helper, utility, converter, datastore, client library, base class, serialization code) rather than in the most obvious function, or make it a pair of cooperating edits in two places that each look harmless alone. Think about state that outlives one call (caches, shared mutable defaults, aliasing of returned objects), about boundary values, about ordering assumptions, and about behaviour that differs between processes or environments.\n\n'
  if prev:
    avoid += 'Earlier changes already made by others - choose a DIFFERENT mechanism and, if you can, a different function: ' + ' | '.join(prev) + '\n\n'
  return f"""You are helping to evaluate a verification effort for the open-source project google/vizier (Python black-box optimisation service). Your job is to write ONE realistic, subtle change to the project's source that BREAKS the following behavioural property, while the project still imports, and its existing test suite still passes.

PROPERTY ({pid}: {d['title']})
{d['statement']}
It is meant to hold for: {d['quantifier']['text']}

Files where the behaviour mainly lives (read whatever else you need): {', '.join(d['anchors']['files'][:8])}

YOUR WORKSPACE: a scratch git worktree of the repository at {wt} (work ONLY there; never touch /repo or /verif, and do not read anything under /verif).
How to run code from the worktree in this sandbox: see /tmp/vizboot/vizboot.py (generated protobuf modules and an `equinox` stand-in are provided there), i.e. start scripts with
    import sys; sys.path.insert(0, '/tmp/vizboot'); import vizboot; vizboot.boot('{wt}')
and run them with /venv/bin/python. There is no network.

WHAT TO PRODUCE
1. A source change inside {wt}/vizier (NOT in tests) of the kind a real developer could make by accident or as a plausible refactoring/optimisation: small, compiles, looks reasonable in review. It must break the property only under something SPECIFIC - a particular interleaving, a crash or fault at a particular point, a multi-step sequence of operations, an unusual input value, or two cooperating edits that each look fine alone - NOT something ordinary use would expose at once.
2. Confirm the pinned test suite still passes with your change: run
    {BASE.format(wt=wt)}
   and check it reports "131 passed" (119 collection errors are normal here).
3. A demonstration program {out}/demo.py (uses the vizboot lines above, takes the checkout path as sys.argv[1], default {wt}) that exits 0 on the ORIGINAL code and exits 1 (printing what went wrong) on your changed code. Verify both: run it against {wt} (changed) and against /tmp/wt_orig (a pristine checkout of the original code; read-only).
4. Save the change as a patch: `git -C {wt} diff > {out}/patch.diff` (must apply with `git apply` to a clean checkout of the same commit).
5. Write {out}/meta.json with keys: property ("{pid}"), summary (what the change does), needs (what specific situation is needed for the breakage to manifest), files (list), how_verified (commands you ran and their outcomes).

{avoid}Constraints: do not edit or add test files of the repository; do not add new dependencies; keep the change under ~30 changed lines. Prefer breaking the behaviour in a way that is silent (wrong result / lost data / wrong state) rather than a crash. When finished, reply with a short summary (files changed, why it breaks the property, what it needs to manifest, demo results)."""


def verify(d):
  d = os.path.abspath(d)
  wt = '/tmp/wt_verify_%d' % os.getpid()
  sh('git -C /repo worktree remove --force %s' % wt)
  sh('git -C /repo worktree add --detach %s HEAD' % wt)
  try:
    r0 = sh('/venv/bin/python %s/demo.py %s' % (d, wt))
    a = sh('git -C %s apply %s/patch.diff' % (wt, d))
    if a.returncode:
      return {'ok': False, 'why': 'patch does not apply: ' + a.stderr[-300:]}
    t = sh(BASE.format(wt=wt))
    tail = t.stdout.strip().splitlines()[-1] if t.stdout.strip() else ''
    r1 = sh('/venv/bin/python %s/demo.py %s' % (d, wt))
    ok = r0.returncode == 0 and r1.returncode != 0 and '131 passed' in tail
    return {'ok': ok, 'demo_original_rc': r0.returncode, 'demo_changed_rc': r1.returncode, 'baseline': tail,
            'demo_changed_out': (r1.stdout + r1.stderr)[-400:], 'demo_original_out': (r0.stdout + r0.stderr)[-200:] if r0.returncode else ''}
  finally:
    sh('git -C /repo worktree remove --force %s' % wt)


def detect(d, pid, tier='quick'):
  d = os.path.abspath(d)
  st = sh('git -C /repo status --porcelain --untracked-files=no').stdout.strip()
  if st:
    return {'ok': False, 'why': '/repo is not clean: ' + st}
  a = sh('git -C /repo apply %s/patch.diff' % d)
  if a.returncode:
    return {'ok': False, 'why': 'patch does not apply to /repo: ' + a.stderr[-300:]}
  try:
    r = sh('cd %s && ./check %s --tier %s' % (VERIF, pid, tier))
    lines = [l for l in r.stdout.splitlines() if l.startswith(('VIOLATION', '  violation', 'HARNESS', pid))]
    return {'detected': r.returncode == 1, 'rc': r.returncode, 'lines': [l[:300] for l in lines[:8]]}
  finally:
    sh('git -C /repo checkout -- .')
    sh('cd %s && git checkout -- evidence' % VERIF)


def regress(repo, only=None):
  """Re-runs, against a scratch copy of the repository (e.g. $VP_RUN_REPO of `vp run --with-repo`), the recorded check of every
  kept seeded change: each must still be reported. Prints one JSON line per change."""
  import glob
  here = os.path.dirname(os.path.abspath(__file__))
  bad = 0
  for mp in sorted(glob.glob(os.path.join(here, 'seeded', '*', 'meta.json'))):
    sid = os.path.basename(os.path.dirname(mp))
    if only and not any(sid.startswith(o) for o in only):
      continue
    pid = json.load(open(mp))['detection']['check']
    a = sh('git -C %s apply %s/patch.diff' % (repo, os.path.dirname(mp)))
    if a.returncode:
      print(json.dumps({'seed': sid, 'error': 'patch does not apply'}), flush=True)
      bad += 1
      continue
    try:
      r = sh('cd %s && VIZIER_REPO=%s ./check %s --tier quick' % (here, repo, pid), timeout=3000)
      rc = r.returncode
    except Exception as e:  # pylint: disable=broad-except
      rc = 'timeout'
    finally:
      sh('git -C %s checkout -- .' % repo)
    ok = rc == 1
    bad += 0 if ok else 1
    print(json.dumps({'seed': sid, 'check': pid, 'rc': rc, 'detected': ok}), flush=True)
  print('REGRESS done: %d not detected' % bad, flush=True)


def install_vizboot():
  """(Re)creates /tmp/vizboot: the bootstrap the seeded demonstrations and the sub-agent prompts refer to."""
  import shutil
  here = os.path.dirname(os.path.abspath(__file__))
  sys.path.insert(0, here)
  from vfw import protogen
  protogen.ensure()
  dst = '/tmp/vizboot'
  shutil.rmtree(dst, ignore_errors=True)
  os.makedirs(dst)
  shutil.copy(os.path.join(here, 'seeded', '_vizboot', 'vizboot.py'), dst)
  shutil.copytree(protogen.OUT, os.path.join(dst, 'gen'))
  shutil.copytree(os.path.join(here, 'vfw', 'shims'), os.path.join(dst, 'shims'))
  print('installed', dst)


if __name__ == '__main__':
  cmd = sys.argv[1]
  if cmd == 'vizboot':
    install_vizboot()
    sys.exit(0)
  if cmd == 'regress':
    regress(sys.argv[2], sys.argv[3:])
    sys.exit(0)
  if cmd == 'prompt':
    print(prompt(sys.argv[2], sys.argv[3]))
  elif cmd == 'verify':
    print(json.dumps(verify(sys.argv[2]), indent=1))
  elif cmd == 'detect':
    print(json.dumps(detect(*sys.argv[2:]), indent=1))
