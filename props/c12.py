"""C12 exactly-once delivery of completed trials (and all active trials) to hosted algorithms.

A harness RecordingDesigner (registered through a PolicyFactory, wrapped by the real DesignerPolicy /
PartiallySerializableDesignerPolicy / InRamDesignerPolicy) logs every update().  BFS over histories of
suggest / complete / add / request / delete / stop / restart / state-loss on the real service (RAM, SQLite)
and on InRamPolicySupporter.  Trials are identified by (id, parameter value) so id reuse is visible.
"""
import copy

from props import c01
from vfw import lifecycle, statespace, svc

LEVEL = 'model_checking'
ASSUMPTIONS = [
    'the designer is a harness object that records update() arguments; the policies, caches, supporters and the service are the real ones',
    'a designer "lineage" is a chain of instances connected by dump()/load(); a freshly built instance that could not load state starts a new lineage and must be given everything',
    'alphabet: workers {a,b}, batch sizes {1,2}, feasible / infeasible completion in any order, externally added completed trial, requested trial, deletion of any trial incl. the one with the largest id, stop, server restart, corrupted policy state',
]

# ---- recording designer -----------------------------------------------------------------------
REC = {'log': {}, 'next_lineage': 1, 'counter': 0, 'events': []}


def _mk_designer_classes():
  from vizier import algorithms as vza
  from vizier import pyvizier as vz
  from vizier.interfaces import serializable

  def ident(t):
    p = t.parameters.get('x')
    return (t.id, round(float(p.value), 6) if p is not None else None)

  class Rec(vza.PartiallySerializableDesigner):
    def __init__(self, problem, seed=None, **kw):
      self.lineage = None   # allocated lazily so that numbering is canonical (1, 2 after a state loss, ...)

    def _lin(self):
      if self.lineage is None:
        self.lineage = REC['next_lineage']
        REC['next_lineage'] += 1
        REC['log'].setdefault(self.lineage, [])
      return self.lineage

    def update(self, completed, all_active):
      self._lin()
      ev = (self.lineage, tuple(sorted(ident(t) for t in completed.trials)), tuple(sorted(ident(t) for t in all_active.trials)))
      REC['log'].setdefault(self.lineage, []).append(ev[1:])
      REC['events'].append(ev)

    def suggest(self, count=None):
      out = []
      for _ in range(count or 1):
        REC['counter'] += 1
        out.append(vz.TrialSuggestion({'x': svc.param_for(100 + REC['counter'])}))
      return out

    def dump(self):
      md = vz.Metadata()
      md['lineage'] = str(self._lin())
      return md

    def load(self, md):
      if 'lineage' not in md:
        raise serializable.HarmlessDecodeError('no lineage')
      # this fresh instance continues the dumped lineage
      try:
        self.lineage = int(md['lineage'])
      except ValueError as e:
        raise serializable.HarmlessDecodeError('unreadable designer state') from e

  class RecPlain(vza.Designer):
    """Not serializable: for DesignerPolicy (rebuilt from scratch on every request)."""

    def __init__(self, problem, **kw):
      self._d = Rec(problem)

    def update(self, completed, all_active):
      self._d.update(completed, all_active)

    def suggest(self, count=None):
      return self._d.suggest(count)

  return Rec, RecPlain


_CL = {}


def classes():
  if not _CL:
    _CL['Rec'], _CL['RecPlain'] = _mk_designer_classes()
  return _CL['Rec'], _CL['RecPlain']


def make_factory(mode, cache):
  from vizier import pythia
  from vizier._src.algorithms.policies import designer_policy as dp
  Rec, RecPlain = classes()

  class F(pythia.PolicyFactory):
    def __call__(self, problem_statement, algorithm, policy_supporter, study_name):
      if mode == 'stateless':
        return dp.DesignerPolicy(policy_supporter, RecPlain, use_seeding=False)
      if mode == 'rebuilt':
        return dp.PartiallySerializableDesignerPolicy(problem_statement, policy_supporter, Rec)
      if mode == 'kept':
        if study_name not in cache:
          cache[study_name] = dp.PartiallySerializableDesignerPolicy(problem_statement, policy_supporter, Rec)
        else:
          cache[study_name]._supporter = policy_supporter
          cache[study_name]._cache._supporter = policy_supporter
        return cache[study_name]
      raise KeyError(mode)
  return F()


class RecBackend(svc.Backend):
  def __init__(self, kind, mode, path=None):
    self.mode = mode
    self.policy_cache = {}
    super().__init__(kind, path=path, scripted=False)

  def _new_servicer(self, fresh, datastore=None):
    from vizier._src.service import pythia_service
    s = super()._new_servicer(fresh, datastore)
    self.policy_cache = {}   # a restarted server has no live policy objects
    s.default_pythia_service = pythia_service.PythiaServicer(s, policy_factory=make_factory(self.mode, self.policy_cache))
    return s


WIPE = ('UpdateMetadata', 's', ((None, ':designer_policy_v0:cache', 'incorporated_completed_trials_ids', 'not json'),))
# only the designer's own state becomes unreadable (e.g. written by another version); the id cache stays valid
WIPE_DESIGNER = ('UpdateMetadata', 's', ((None, ':designer_policy_v0:designer', 'lineage', 'written-by-another-version'),))


def actions(sysm):
  cfg = sysm.cfg
  canon = sysm.canons()[0]
  st = lifecycle.study_of(canon, 's')
  if st is None:
    return [('CreateStudy', 's', 'REC')]
  ts = lifecycle.trials_of(canon, 's') or []
  ids = [int(t['id']) for t in ts]
  room = cfg['max_trials'] - len(ts)
  acts = []
  for c in ('a', 'b'):
    own = len([t for t in ts if t['state'] == 'ACTIVE' and t['client'] == c])
    req = len([t for t in ts if t['state'] == 'REQUESTED'])
    for n in cfg['counts']:
      if max(0, n - own - req) <= room and (max(ids) if ids else 0) < cfg['max_id']:
        acts.append(('SuggestTrials', 's', c, n))
      else:
        sysm.pruned += 1
  if room >= 1 and (max(ids) if ids else 0) < cfg['max_id']:
    # distinct parameter value per externally created trial, so that a reused id is a visibly different trial
    used = {round(float(t['params'][0][2]), 6) for t in ts}
    delivered = {x[1] for v in REC['log'].values() for h in v for x in h[0]}
    x = [c for c in (0.75, 0.76, 0.77, 0.78, 0.79, 0.8) if c not in used and c not in delivered][0]
    acts.append(('CreateTrial', 's', 'succeeded', x))
    acts.append(('CreateTrial', 's', 'requested', round(x - 0.5, 6)))
  else:
    sysm.pruned += 2
  for i in ids:
    acts.append(('CompleteTrial', 's', i, 'final'))
    acts.append(('CompleteTrial', 's', i, 'infeasible'))
    acts.append(('CompleteTrial', 's', i, 'infeasible-noreason'))
    acts.append(('DeleteTrial', 's', i))
    acts.append(('StopTrial', 's', i))
  acts.append(('Restart',))
  if cfg['mode'] in ('rebuilt',) and cfg.get('wipe', True):
    acts.append(WIPE)
    acts.append(WIPE_DESIGNER)
  return acts


class RecSystem(lifecycle.ServiceSystem):
  """ServiceSystem whose algorithm is the recording designer; adds the delivery oracle."""

  def __init__(self, cfg):
    self.pid, self.cfg, self.actions_fn = 'C12', cfg, actions
    self.kinds = cfg['backends']
    self.use_model = False
    self.studies, self.clients = ('s',), ('a', 'b')
    self.max_trial_id = cfg['max_id'] + 1
    self.bs = []
    self._tmp = None
    for k in self.kinds:
      path = None
      if k == 'sqlfile':
        import os
        import tempfile
        self._tmp = tempfile.mkdtemp(prefix='sqlfile-', dir=svc.scratch())
        path = os.path.join(self._tmp, 'v.db')
      self.bs.append(RecBackend(k, cfg['mode'], path=path))
    self._empty = [b.snapshot() for b in self.bs]
    self.pruned = 0
    self._last = None
    self.reset()

  def reset(self):
    super().reset()
    REC['log'], REC['next_lineage'], REC['counter'], REC['events'] = {}, 1, 0, []
    for b in self.bs:
      b.policy_cache.clear()
      b.restart()
    self._cc = None

  def snapshot(self):
    base = super().snapshot()
    live = [copy.copy(b.policy_cache) for b in self.bs]
    # live policy objects are mutable: the 'kept' mode is explored by replay only (see run())
    return (base, copy.deepcopy((REC['log'], REC['next_lineage'], REC['counter'])), live)

  def restore(self, snap):
    super().restore(snap[0])
    REC['log'], REC['next_lineage'], REC['counter'] = copy.deepcopy(snap[1])
    REC['events'] = []
    for b, live in zip(self.bs, snap[2]):
      b.policy_cache.clear()
      b.policy_cache.update(live)

  def drop(self, snap):
    super().drop(snap[0])

  def key(self):
    log = tuple(sorted((k, tuple(v)) for k, v in REC['log'].items()))
    return (tuple(self.canons()), log)

  def apply(self, a):
    REC['events'] = []
    if self.cfg['mode'] == 'stateless':
      REC['log'], REC['next_lineage'] = {}, 1   # every request builds a designer from scratch
    pre = self.canons()[0]
    if a[0] == 'Restart':
      for b in self.bs:
        b.restart()
      self._last = 'OK'
      return []
    vios = []
    # only the first backend drives the recording (others would double-log); lock-step backends are
    # handled by separate runs per backend kind
    b = self.bs[0]
    out = svc.apply(b, a)
    self._cc = None
    post = self.canons()[0]
    self._last = out[0]
    self._cur = a
    for clause, text in lifecycle.invariants(post):
      vios.append(self.v(clause, a[0], pre, text, b.kind))
    if out[0].startswith('EXC:'):
      vios.append(self.v('undocumented-exception', a[0], pre, '%s raised %s' % (a[0], out[2]), b.kind))
    if a[0] != 'SuggestTrials' or out[0] != 'OK':
      return vios
    if out[1][3]:
      vios.append(self.v('suggest-failed', a[0], pre, 'SuggestTrials ended with an error operation', b.kind))
      return vios
    pre_ids = {t['id'] for t in (lifecycle.trials_of(pre) or [])}
    post_ts = lifecycle.trials_of(post) or []

    def ident(t):
      return (int(t['id']), round(float(t['params'][0][2]), 6))
    stored_done = {ident(t) for t in post_ts if t['state'] in ('SUCCEEDED', 'INFEASIBLE')}
    active_then = {ident(t) for t in post_ts if t['state'] == 'ACTIVE' and t['id'] in pre_ids}
    for lineage, completed, active in REC['events']:
      hist = REC['log'][lineage]
      if set(active) != active_then:
        vios.append(self.v('active-delivery', a[0], pre, 'update() got active trials %s, ACTIVE at that moment: %s'
                           % (sorted(active), sorted(active_then)), b.kind))
      dup = [x for x in completed if sum(1 for h in hist for y in h[0] if y == x) > 1]
      if dup:
        vios.append(self.v('completed-delivered-twice', a[0], pre, 'completed trials %s were given to the same designer lineage more than once' % dup, b.kind))
      ghost = [x for x in completed if x not in stored_done]
      if ghost:
        vios.append(self.v('completed-not-stored', a[0], pre, 'update() got %s which are not stored completed trials' % ghost, b.kind))
      delivered = {x for h in hist for x in h[0]}
      missing = sorted(stored_done - delivered)
      if missing:
        reused = [m for m in missing if any(d[0] == m[0] for d in delivered)]
        clause = 'completed-never-delivered:id-reused' if reused and len(reused) == len(missing) else 'completed-never-delivered'
        vios.append(self.v(clause, a[0], pre, 'stored completed trials %s were not delivered to the live designer lineage %d (delivered so far: %s)'
                           % (missing, lineage, sorted(delivered)), b.kind))
    return vios

  def v(self, clause, kind, pre, text, backend, extra=None):
    return {'sig': 'C12|%s|%s' % (clause, self.cfg['mode']), 'desc': '[%s %s] %s' % (backend, self.cfg['mode'], text), 'case': extra}


# ---- InRamPolicySupporter variant ---------------------------------------------------------------
class InRamSystem:
  """statespace.System over InRamPolicySupporter + a policy object (kept alive or rebuilt per request)."""

  def __init__(self, cfg):
    self.cfg = cfg
    self.pruned = 0
    self._last = None
    self.reset()

  def _problem(self):
    from vizier import pyvizier as vz
    p = vz.ProblemStatement()
    p.search_space.root.add_float_param('x', 0.0, 1.0)
    p.metric_information.append(vz.MetricInformation('m', goal=vz.ObjectiveMetricGoal.MAXIMIZE))
    return p

  def reset(self):
    from vizier import pythia
    self.path = []
    REC['log'], REC['next_lineage'], REC['counter'], REC['events'] = {}, 1, 0, []
    self.sup = pythia.InRamPolicySupporter(self._problem())
    self.policy = None

  def _policy(self):
    from vizier._src.algorithms.policies import designer_policy as dp
    Rec, RecPlain = classes()
    mode = self.cfg['mode']
    if mode == 'inram-kept':
      if self.policy is None:
        self.policy = dp.InRamDesignerPolicy(self.sup.study_config, self.sup, Rec)
      return self.policy
    if mode == 'inram-rebuilt':
      return dp.PartiallySerializableDesignerPolicy(self.sup.study_config, self.sup, Rec)
    if mode == 'inram-stateless':
      return dp.DesignerPolicy(self.sup, RecPlain, use_seeding=False)
    raise KeyError(mode)

  # live objects do not copy: snapshot = the path, restore = replay
  def snapshot(self):
    return list(self.path)

  def restore(self, snap):
    self.reset()
    for a in snap:
      self._do(a)

  def drop(self, snap):
    pass

  def last_outcome(self):
    return self._last

  def key(self):
    ts = tuple((t.id, t.status.name, round(float(t.parameters['x'].value), 6), t.infeasible) for t in self.sup.trials)
    log = tuple(sorted((k, tuple(v)) for k, v in REC['log'].items()))
    return (ts, log)

  def actions(self):
    from vizier import pyvizier as vz
    acts = []
    n = len(self.sup.trials)
    for c in self.cfg['counts']:
      if n + c <= self.cfg['max_trials']:
        acts.append(('suggest', c))
      else:
        self.pruned += 1
    if n < self.cfg['max_trials']:
      acts.append(('add_completed',))
      acts.append(('add_active',))
    for t in self.sup.trials:
      if t.status == vz.TrialStatus.ACTIVE:
        acts.append(('complete', t.id, 'ok'))
        acts.append(('complete', t.id, 'infeasible'))
    return acts

  def _do(self, a):
    from vizier import pyvizier as vz
    self.path.append(a)
    if a[0] == 'suggest':
      self.sup.SuggestTrials(self._policy(), a[1])
    elif a[0] == 'add_completed':
      t = vz.Trial(parameters={'x': 0.75})
      t.complete(vz.Measurement({'m': 1.0}))
      self.sup.AddTrials([t])
    elif a[0] == 'add_active':
      self.sup.AddTrials([vz.Trial(parameters={'x': 0.25})])
    elif a[0] == 'complete':
      t = [t for t in self.sup.trials if t.id == a[1]][0]
      if a[2] == 'ok':
        t.complete(vz.Measurement({'m': 2.0}))
      else:
        t.complete(vz.Measurement(), infeasibility_reason='bad')

  def apply(self, a):
    from vizier import pyvizier as vz
    REC['events'] = []
    if self.cfg['mode'] == 'inram-stateless':
      REC['log'], REC['next_lineage'] = {}, 1
    pre_ids = {t.id for t in self.sup.trials}
    try:
      self._do(a)
      self._last = 'OK'
    except Exception as e:  # pylint: disable=broad-except
      self._last = 'EXC:' + type(e).__name__
      return [{'sig': 'C12|undocumented-exception|%s' % self.cfg['mode'], 'desc': '%s raised %r' % (a, e), 'case': None}]
    vios = []
    if a[0] != 'suggest':
      return vios

    def ident(t):
      return (t.id, round(float(t.parameters['x'].value), 6))
    stored_done = {ident(t) for t in self.sup.trials if t.status == vz.TrialStatus.COMPLETED}
    active_then = {ident(t) for t in self.sup.trials if t.status == vz.TrialStatus.ACTIVE and t.id in pre_ids}
    mode = self.cfg['mode']
    for lineage, completed, active in REC['events']:
      hist = REC['log'][lineage]
      if set(active) != active_then:
        vios.append({'sig': 'C12|active-delivery|%s' % mode, 'desc': 'update() got active %s, ACTIVE at that moment %s' % (sorted(active), sorted(active_then)), 'case': None})
      dup = [x for x in completed if sum(1 for h in hist for y in h[0] if y == x) > 1]
      if dup:
        vios.append({'sig': 'C12|completed-delivered-twice|%s' % mode, 'desc': 'completed %s delivered twice to one lineage' % dup, 'case': None})
      delivered = {x for h in hist for x in h[0]}
      missing = sorted(stored_done - delivered)
      if missing:
        vios.append({'sig': 'C12|completed-never-delivered|%s' % mode, 'desc': 'completed %s never delivered (delivered: %s)' % (missing, sorted(delivered)), 'case': None})
    return vios


_SYS = {}


def system(cfg):
  k = repr(sorted(cfg.items()))
  if k not in _SYS:
    _SYS[k] = InRamSystem(cfg) if cfg['mode'].startswith('inram') else RecSystem(cfg)
  return _SYS[k]


def expand(task):
  return statespace.expand_paths(system(task['cfg']), task['paths'])


def large_shard(task):
  """One long history on a study with more than a hundred trials (anything in the serving path that lists trials in pages or
  batches shows only here): 105 completed trials added by the user, then suggest / complete / suggest by two workers."""
  cfg = {'max_trials': 400, 'counts': (1, 2), 'max_id': 130, 'backends': [task['backend']], 'mode': task['mode']}
  sysm = system(cfg)
  sysm.reset()
  path = [('CreateStudy', 's', 'REC')] + [('CreateTrial', 's', 'succeeded', round(0.001 * i, 6)) for i in range(1, 106)]
  path += [('SuggestTrials', 's', 'a', 2), ('CompleteTrial', 's', 106, 'final'), ('SuggestTrials', 's', 'b', 1), ('CompleteTrial', 's', 107, 'infeasible'), ('SuggestTrials', 's', 'a', 1)]
  if task.get('history') == 'sparse':
    # ids reach the policy's memory in an order that is far from ascending, with gaps (parallel workers finishing out of order)
    path = [('CreateStudy', 's', 'REC'), ('SuggestTrials', 's', 'a', 3), ('SuggestTrials', 's', 'b', 3), ('SuggestTrials', 's', 'c', 3), ('SuggestTrials', 's', 'd', 2)]
    for i, tid in enumerate((9, 2, 10, 3, 1, 11, 5)):
      path += [('CompleteTrial', 's', tid, 'final' if i % 3 else 'infeasible'), ('SuggestTrials', 's', 'e%d' % i, 1)]   # a new worker each time: the algorithm is asked
  vios = []
  done = []
  for a in path:
    for v in sysm.apply(a):
      v = dict(v)
      v['sig'] = v['sig'] + '|large-study'
      v['case'] = {'large': True, 'backend': task['backend'], 'mode': task['mode'], 'history': task.get('history')}
      vios.append(v)
    done.append(a)
    if vios:
      break
  return {'n': len(done), 'violations': vios[:5]}


def run(ctx):
  svc_base = {'max_trials': 3, 'counts': (1, 2), 'max_id': 5}
  if ctx.quick:
    deep = [[('CreateStudy', 's', 'REC'), ('CreateTrial', 's', 'succeeded', 0.75), ('SuggestTrials', 's', 'a', 1)],
            [('CreateStudy', 's', 'REC'), ('SuggestTrials', 's', 'a', 2), ('CompleteTrial', 's', 1, 'final'), ('CompleteTrial', 's', 2, 'infeasible'),
             ('SuggestTrials', 's', 'b', 1)],
            # an id above the largest stored one is in the policy's set of incorporated ids once trials 2 and 3 are deleted
            [('CreateStudy', 's', 'REC'), ('SuggestTrials', 's', 'a', 1), ('CreateTrial', 's', 'succeeded', 0.75), ('SuggestTrials', 's', 'a', 2), ('CompleteTrial', 's', 1, 'final')]]
    plans = [(dict(svc_base, backends=['ram'], mode='rebuilt'), 5),
             (dict(svc_base, backends=['ram'], mode='rebuilt', starts=deep), 4),
             (dict(svc_base, backends=['ram'], mode='stateless'), 4),
             (dict(svc_base, backends=['sqlmem'], mode='rebuilt', wipe=False), 3),
             ({'mode': 'inram-kept', 'max_trials': 4, 'counts': (1, 2)}, 5),
             ({'mode': 'inram-rebuilt', 'max_trials': 4, 'counts': (1, 2)}, 4),
             ({'mode': 'inram-stateless', 'max_trials': 3, 'counts': (1, 2)}, 4)]
  else:
    plans = [(dict(svc_base, backends=['ram'], mode='rebuilt', max_trials=4, max_id=6), 7),
             (dict(svc_base, backends=['ram'], mode='stateless', max_trials=4, max_id=6), 6),
             (dict(svc_base, backends=['sqlmem'], mode='rebuilt'), 5),
             (dict(svc_base, backends=['sqlfile'], mode='rebuilt', wipe=False), 4),
             ({'mode': 'inram-kept', 'max_trials': 5, 'counts': (1, 2, 3)}, 7),
             ({'mode': 'inram-rebuilt', 'max_trials': 5, 'counts': (1, 2)}, 6),
             ({'mode': 'inram-stateless', 'max_trials': 4, 'counts': (1, 2)}, 6)]
  cov = {'states': 0, 'transitions': 0, 'traces_validated_against_impl': 0, 'samples': [], 'runs': [], 'exhaustive': True}
  for cfg, depth in plans:
    starts = cfg.pop('starts', None)
    s = statespace.Search(ctx, 'expand', depth, cfg, chunk=8, starts=starts)
    fp = s.run()
    c = s.coverage(fp)
    if c['snapshot_vs_replay_mismatches']:
      from vfw.runner import HarnessError
      raise HarnessError('snapshot/replay mismatch in %s' % cfg)
    for k in ('states', 'transitions', 'traces_validated_against_impl'):
      cov[k] += c[k]
    cov['samples'] += c.pop('samples')[:2]
    cov['exhaustive'] = cov['exhaustive'] and c['exhaustive']
    c['cfg'] = cfg
    cov['runs'].append(c)
  big = 0
  for r in ctx.pmap('large_shard', [{'backend': 'ram', 'mode': 'rebuilt'}, {'backend': 'ram', 'mode': 'stateless'}, {'backend': 'ram', 'mode': 'rebuilt', 'history': 'sparse'}] + ([] if ctx.quick else [{'backend': 'sqlmem', 'mode': 'rebuilt'}])):
    big += r['n']
    ctx.extend(r['violations'])
  cov['transitions'] += big
  cov['traces_validated_against_impl'] += big
  cov['large_study_steps'] = big
  return cov


def replay(case, ctx):
  if case.get('large'):
    return large_shard({'backend': case['backend'], 'mode': case['mode'], 'history': case.get('history')})['violations']
  sysm = system(case['cfg'])
  sysm.reset()
  for a in case['path']:
    sysm.apply(c01._t(a))
  return sysm.apply(c01._t(case['action']))
