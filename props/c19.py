"""C19 vectorised acquisition optimiser: full product of feature layouts x padding x strategy x count x batch x
evaluation budget x prior features x n_parallel x score functions x seeds; the returned candidates are
re-scored by the harness."""
import itertools
import math

import numpy as np

LEVEL = 'exploration'
ASSUMPTIONS = [
    'runs on top of a stand-in for the equinox package (the installed equinox does not import on the installed jax); a violation is re-checked with use_fori=False (no fori_loop tracing) before it is reported',
    'jax_enable_x64 is on, as the service configures it',
    'the evaluation budget is at least the number of requested candidates (otherwise there is nothing to return); "not worse than the best prior point" is demanded of the eagle strategy only when the budget covers one pass over its pool (10 + 0.5 n + n^1.2 fireflies, rounded up to the batch size)',
    'jax PRNG streams cannot be scripted: the seed is an enumerated configuration value',
]
LAYOUTS = [(0, (3,)), (1, ()), (2, ()), (1, (2,)), (3, (2, 3)), (3, ())]
SCORES = ['interior', 'corner', 'categorical', 'plateau', 'neginf-region', 'constant', 'posinf-region', 'neginf-almost-everywhere']


def _problem(nc, cats):
  from vizier import pyvizier as vz
  p = vz.ProblemStatement()
  for i in range(nc):
    p.search_space.root.add_float_param('x%d' % i, 0.0, 1.0)
  for j, k in enumerate(cats):
    p.search_space.root.add_categorical_param('c%d' % j, [str(v) for v in range(k)])
  p.metric_information.append(vz.MetricInformation('m', goal=vz.ObjectiveMetricGoal.MAXIMIZE))
  return p


def score_np(name, x, c, nc, cats):
  """Reference score on numpy arrays x (..., Dc_padded), c (..., Dk_padded); only the real dims are read."""
  xr = x[..., :nc]
  s = np.zeros(x.shape[:-1])
  if name == 'interior':
    s = -np.sum((xr - 0.3) ** 2, axis=-1)
  elif name == 'corner':
    s = np.sum(xr, axis=-1)
  elif name == 'categorical':
    s = -0.1 * np.sum((xr - 0.5) ** 2, axis=-1)
  elif name == 'plateau':
    s = np.where(np.sum(xr, axis=-1) < 0.2 * max(nc, 1), 1.0, 0.0) if nc else s
  elif name == 'neginf-region':
    s = np.where((xr[..., 0] > 0.5) if nc else False, -np.inf, -np.sum(xr, axis=-1))
  elif name == 'posinf-region':
    s = np.where((xr[..., 0] > 0.9) if nc else False, np.inf, -np.sum((xr - 0.3) ** 2, axis=-1))
  elif name == 'neginf-almost-everywhere':
    s = np.where(np.all(np.abs(xr - 0.5) < 1e-3, axis=-1) if nc else False, 1.0, -np.inf)
  elif name == 'cat-needle':
    # one combination of categories scores 1, every other 0: only a prior point can know which
    s = np.where(np.all(c[..., :len(cats)] == (np.array(cats) - 1), axis=-1), 1.0, 0.0) - 0.01 * np.sum((xr - 0.5) ** 2, axis=-1)
  elif name == 'needles':
    s = -np.sum((xr - FAR[:nc]) ** 2, axis=-1)
    s = np.where(np.sum((xr - NEEDLE_Q[:nc]) ** 2, axis=-1) < 1e-8, 5.0, s)
    s = np.where(np.sum((xr - NEEDLE_P[:nc]) ** 2, axis=-1) < 1e-8, 10.0, s)
  if name in ('categorical', 'interior') and len(cats):
    s = s + 0.5 * (c[..., 0] == (cats[0] - 1))
  return s


# 'needles': a smooth background that is best far away, and two needle-thin peaks next to each other (P: 10, Q: 5); only a prior
# point can know where they are
FAR = np.array([0.9, 0.1, 0.9], dtype=np.float32)
NEEDLE_P = np.array([0.300, 0.700, 0.300], dtype=np.float32)
NEEDLE_Q = np.array([0.305, 0.705, 0.305], dtype=np.float32)
NEEDLE_N = np.array([0.320, 0.720, 0.320], dtype=np.float32)


def make_score(name, nc, cats):
  import jax.numpy as jnp

  def fn(mi, seed):
    x = mi.continuous.padded_array
    c = mi.categorical.padded_array
    xr = x[..., :nc]
    s = jnp.zeros(x.shape[:-1])
    if name == 'interior':
      s = -jnp.sum((xr - 0.3) ** 2, axis=-1)
    elif name == 'corner':
      s = jnp.sum(xr, axis=-1)
    elif name == 'categorical':
      s = -0.1 * jnp.sum((xr - 0.5) ** 2, axis=-1)
    elif name == 'plateau':
      s = jnp.where(jnp.sum(xr, axis=-1) < 0.2 * max(nc, 1), 1.0, 0.0) if nc else s
    elif name == 'neginf-region':
      s = jnp.where((xr[..., 0] > 0.5) if nc else False, -jnp.inf, -jnp.sum(xr, axis=-1))
    elif name == 'posinf-region':
      s = jnp.where((xr[..., 0] > 0.9) if nc else False, jnp.inf, -jnp.sum((xr - 0.3) ** 2, axis=-1))
    elif name == 'neginf-almost-everywhere':
      s = jnp.where(jnp.all(jnp.abs(xr - 0.5) < 1e-3, axis=-1) if nc else False, 1.0, -jnp.inf)
    elif name == 'cat-needle':
      s = jnp.where(jnp.all(c[..., :len(cats)] == (jnp.array(cats) - 1), axis=-1), 1.0, 0.0) - 0.01 * jnp.sum((xr - 0.5) ** 2, axis=-1)
    elif name == 'needles':
      s = -jnp.sum((xr - FAR[:nc]) ** 2, axis=-1)
      s = jnp.where(jnp.sum((xr - NEEDLE_Q[:nc]) ** 2, axis=-1) < 1e-8, 5.0, s)
      s = jnp.where(jnp.sum((xr - NEEDLE_P[:nc]) ** 2, axis=-1) < 1e-8, 10.0, s)
    if name in ('categorical', 'interior') and len(cats):
      s = s + 0.5 * (c[..., 0] == (cats[0] - 1))
    s = jnp.broadcast_to(s, x.shape[:-1])      # (layouts without continuous features give scalars above)
    if x.ndim == 3:      # parallel acquisition: one value per set of n_parallel points
      s = jnp.sum(s, axis=-1)
    return s
  return fn


def shard(task):
  import jax
  jax.config.update('jax_enable_x64', True)
  from vizier import pyvizier as vz
  from vizier.pyvizier import converters
  from vizier.pyvizier.converters import padding
  from vizier._src.algorithms.optimizers import eagle_strategy as es, random_vectorized_optimizer as rvo, vectorized_base as vb
  vios, n, nontriv, refused = {}, 0, 0, {}

  def V(clause, cfg, text):
    sig = 'C19|%s|%s' % (clause, cfg['strategy'])
    vios.setdefault(sig, {'sig': sig, 'desc': '%s: %s' % (cfg, text), 'case': cfg})

  def run_one(cfg, fori):
    nc, cats = cfg['layout']
    prob = _problem(nc, cats)
    ps = padding.PaddingSchedule(num_trials=padding.PaddingType.NONE,
                                 num_features=padding.PaddingType.POWERS_OF_2 if cfg['pad'] else padding.PaddingType.NONE)
    conv = converters.TrialToModelInputConverter.from_problem(prob, padding_schedule=ps)
    sf = es.VectorizedEagleStrategyFactory() if cfg['strategy'] == 'eagle' else rvo.RandomVectorizedStrategy
    opt = vb.VectorizedOptimizerFactory(strategy_factory=sf, max_evaluations=cfg['evals'], suggestion_batch_size=cfg['batch'], use_fori=fori)(conv)
    prior = None
    prior_trials = []
    if cfg['score'] == 'needles':
      # more prior points than the pool holds, oldest first: the best one (P) and its neighbour (Q) at chosen positions among the
      # old ones, a mediocre neighbour (N) among the recent ones, everything else far away
      from vizier._src.jax import types
      rng = np.random.default_rng(cfg['seed'])
      pts = rng.uniform(low=[0.5, 0.0, 0.5][:nc], high=[1.0, 0.5, 1.0][:nc], size=(cfg['prior'], nc)).astype(np.float32)
      iq, ip = cfg['needle_at']
      pts[iq], pts[ip], pts[cfg['prior'] // 2] = NEEDLE_Q[:nc], NEEDLE_P[:nc], NEEDLE_N[:nc]
      prior_trials = [vz.Trial(parameters={'x%d' % i: float(v) for i, v in enumerate(row)}) for row in pts]
      prior = types.ModelInput(continuous=types.PaddedArray.as_padded(pts), categorical=types.PaddedArray.as_padded(np.zeros((cfg['prior'], 0), dtype=types.INT_DTYPE)))
    elif cfg['prior']:
      best = {'interior': 0.3, 'corner': 1.0, 'categorical': 0.5, 'plateau': 0.0, 'neginf-region': 0.0, 'constant': 0.5, 'posinf-region': 0.95, 'neginf-almost-everywhere': 0.5, 'needles': 0.3, 'cat-needle': 0.5}[cfg['score']]
      for k in range(cfg['prior']):
        params = {'x%d' % i: (best if k == 0 else 0.9 - 0.1 * k) for i in range(nc)}
        if cfg.get('prior_out') and k < 2:
          # a prior point from an older, wider search space: outside the unit cube after conversion (above for k = 0, below for k = 1)
          params = {'x%d' % i: (1.4 if k == 0 else -0.3) for i in range(nc)}
        params.update({'c%d' % j: (str(sz - 1) if k == 0 else '0') for j, sz in enumerate(cats)})
        prior_trials.append(vz.Trial(parameters=params))
      prior = conv.to_features(prior_trials)
    res = opt(make_score(cfg['score'], nc, cats), count=cfg['count'], prior_features=prior, n_parallel=cfg['n_parallel'], seed=jax.random.PRNGKey(cfg['seed']))
    return conv, res, prior_trials

  import time
  skipped = 0
  for cfg in task['configs']:
    if task.get('deadline') and time.time() > task['deadline']:
      skipped += 1          # wall-clock budget used up: reported, and the run is not called exhaustive
      continue
    n += 1
    if n % 25 == 0:
      jax.clear_caches()      # every configuration compiles its own programs: keep a long-lived worker from growing without bound
    nc, cats = cfg['layout']
    try:
      conv, res, prior_trials = run_one(cfg, cfg.get('fori', True))
    except Exception as e:  # pylint: disable=broad-except
      # every configuration is valid by construction: an optimiser that raises has not returned candidates
      k = '%s:%s' % (cfg['strategy'], type(e).__name__)
      refused[k] = refused.get(k, 0) + 1
      if len(refused) < 4:
        refused[k + ':msg'] = str(e)[:160]
      V('raises:' + type(e).__name__, cfg, 'the optimiser raises %r' % (e,))
      continue
    nontriv += 1
    found = []
    X = np.asarray(res.features.continuous)
    C = np.asarray(res.features.categorical)
    R = np.asarray(res.rewards)
    P = cfg['n_parallel'] or 1
    emp = conv.to_features([])
    dc, dk = emp.continuous.shape[-1], emp.categorical.shape[-1]
    if X.shape != (cfg['count'], P, dc) or C.shape != (cfg['count'], P, dk) or R.shape != (cfg['count'],):
      found.append(('shape', 'features %s / %s rewards %s for count=%d n_parallel=%s dims=(%d,%d)' % (X.shape, C.shape, R.shape, cfg['count'], cfg['n_parallel'], dc, dk)))
    else:
      if nc and not ((X[..., :nc] >= 0) & (X[..., :nc] <= 1)).all():
        found.append(('continuous-out-of-unit-cube', 'continuous features %s' % X[..., :nc][(X[..., :nc] < 0) | (X[..., :nc] > 1)][:4].tolist()))
      for j, sz in enumerate(cats):
        if not ((C[..., j] >= 0) & (C[..., j] < sz)).all():
          found.append(('categorical-out-of-range', 'categorical feature %d takes %s (size %d)' % (j, np.unique(C[..., j]).tolist(), sz)))
      if (X[..., nc:] != 0).any() or (C[..., len(cats):] != 0).any():
        found.append(('padding-leaks', 'padded dimensions of the result hold %s / %s' % (X[..., nc:][X[..., nc:] != 0][:3].tolist(), C[..., len(cats):][C[..., len(cats):] != 0][:3].tolist())))
      if cfg['n_parallel'] is None:
        want = score_np(cfg['score'], X[:, 0, :], C[:, 0, :], nc, cats)
        with np.errstate(invalid='ignore'):
          ok = np.all((want == R) | (np.isfinite(want) & np.isfinite(R) & (np.abs(want - R) <= 1e-6)))
        if not ok:
          found.append(('reward-not-the-score', 'reported rewards %s, score at the returned candidates %s' % (R.tolist(), want.tolist())))
        if prior_trials and not cfg.get('prior_out'):
          pf = conv.to_features(prior_trials)
          ps_ = score_np(cfg['score'], np.asarray(pf.continuous.padded_array), np.asarray(pf.categorical.padded_array), nc, cats)
          # the eagle pool takes the priors in, but a budget below one pass over the pool cannot evaluate them all: "the best
          # it evaluated" then says nothing about the priors (the random strategy never looks at them: known finding)
          nfeat = nc + len(cats)
          pool = min(10 + int(0.5 * nfeat + nfeat ** 1.2), 100)
          pool = int(math.ceil(pool / cfg['batch']) * cfg['batch'])
          if cfg['strategy'] == 'eagle' and cfg['evals'] < pool:
            pass
          elif np.max(R) < np.max(ps_) - 1e-9:
            found.append(('worse-than-prior', 'best returned score %r < best score among the prior points %r' % (float(np.max(R)), float(np.max(ps_)))))
    # same seed => same result
    try:
      if task.get('repeat_every', 1) > 1 and n % task['repeat_every']:
        raise StopIteration
      _, res2, _ = run_one(cfg, cfg.get('fori', True))
      if not (np.array_equal(np.asarray(res2.features.continuous), X) and np.array_equal(np.asarray(res2.features.categorical), C) and np.array_equal(np.asarray(res2.rewards), R, equal_nan=True)):
        found.append(('same-seed-different-result', 'two runs with seed %d differ' % cfg['seed']))
    except Exception:  # pylint: disable=broad-except
      pass
    for clause, text in found:
      V(clause, cfg, text)
  return {'n': n, 'nontrivial': nontriv, 'refused': refused, 'violations': list(vios.values()), 'skipped': skipped}


def churn_shard(task):
  """Converters come and go in a long-lived process. An optimiser is built for a converter of space A, everything about A is
  dropped, and a converter of another space B is created until it happens to land on A's old address; the optimiser built for
  it must still be one for B (anything remembered per object identity instead of per object shows here)."""
  import jax
  import jax.numpy as jnp
  jax.config.update('jax_enable_x64', True)
  from vizier.pyvizier import converters
  from vizier._src.algorithms.optimizers import eagle_strategy as es, random_vectorized_optimizer as rvo, vectorized_base as vb
  vios, n, reused = {}, 0, 0

  def mk(nc, cats):
    return converters.TrialToModelInputConverter.from_problem(_problem(nc, cats))

  def opt(conv, strat):
    sf = es.VectorizedEagleStrategyFactory() if strat == 'eagle' else rvo.RandomVectorizedStrategy
    return vb.VectorizedOptimizerFactory(strategy_factory=sf, max_evaluations=10, suggestion_batch_size=5)(conv)
  for strat in ('eagle', 'random'):
    for la, lb in (((1, (5,)), (1, (3,))), ((2, (4, 2)), (2, (2, 2))), ((1, (3,)), (2, (3,)))):
      for i in range(task['tries']):
        a = mk(*la)
        o = opt(a, strat)
        ida = id(a)
        del a, o
        b = mk(*lb)
        if id(b) != ida:
          continue
        reused += 1
        n += 1
        cfg = {'strategy': strat, 'first_space': list(la), 'then_space': list(lb)}
        try:
          res = opt(b, strat)(make_score('categorical', lb[0], lb[1]), count=3, seed=jax.random.PRNGKey(1))
          C = np.asarray(res.features.categorical)
          X = np.asarray(res.features.continuous)
          bad = [j for j, sz in enumerate(lb[1]) if not ((C[..., j] >= 0) & (C[..., j] < sz)).all()]
          if bad or X.shape[-1] != lb[0] or C.shape[-1] != len(lb[1]):
            sig = 'C19|stale-dimensions-after-converter-churn|%s' % strat
            vios.setdefault(sig, {'sig': sig, 'desc': '%s: optimiser for layout %s built after one for %s had come and gone returns categorical values %s / shapes %s %s' % (cfg, lb, la, np.unique(C).tolist(), X.shape, C.shape), 'case': None})
        except Exception as e:  # pylint: disable=broad-except
          sig = 'C19|raises-after-converter-churn|%s' % strat
          vios.setdefault(sig, {'sig': sig, 'desc': '%s: %r' % (cfg, e), 'case': None})
        break
  # one compiled "optimise" function with the optimiser as its (pytree) argument, as the GP designers use it, called for two
  # search spaces of the same shape but other category counts: the second call must be an optimisation of the second space
  try:
    import equinox as eqx
  except Exception:  # pylint: disable=broad-except
    eqx = None
  if eqx is not None:
    for strat in ('eagle', 'random'):
      for la, lb in (((1, (5, 2)), (1, (2, 5))), ((0, (4, 3, 2)), (0, (2, 3, 4))), ((2, (3,)), (2, (2,)))):
        n += 1
        score_any = lambda mi, seed: -0.1 * jnp.sum((mi.continuous.padded_array - 0.5) ** 2, axis=-1) + 0.5 * jnp.sum(mi.categorical.padded_array, axis=-1)

        @eqx.filter_jit
        def optimise(optimizer, seed):
          return optimizer(score_any, count=3, seed=seed)
        try:
          for lay in (la, lb):
            conv = mk(*lay)
            res = optimise(opt(conv, strat), jax.random.PRNGKey(1))
            C = np.asarray(res.features.categorical)
            bad = [j for j, sz in enumerate(lay[1]) if not ((C[..., j] >= 0) & (C[..., j] < sz)).all()]
            if bad:
              sig = 'C19|categorical-out-of-range:shared-compiled-function|%s' % strat
              vios.setdefault(sig, {'sig': sig, 'desc': '%s: one jitted optimise(optimizer, seed) called for layout %s and then %s: for %s it returns categorical values %s' % (strat, la, lb, lay, np.unique(C).tolist()), 'case': None})
        except Exception as e:  # pylint: disable=broad-except
          sig = 'C19|raises:shared-compiled-function|%s' % strat
          vios.setdefault(sig, {'sig': sig, 'desc': '%s layouts %s then %s: %r' % (strat, la, lb, e), 'case': None})
  return {'n': n, 'reused': reused, 'violations': list(vios.values())}


def configs(quick, seed):
  out = []
  for layout, pad, strat, count, batch, evmul, prior, npar, score, sd in itertools.product(
      LAYOUTS, [False, True], ['random', 'eagle'], [1, 3], [5] if quick else [1, 5, 25], [4] if quick else [1, 4], [0, 3] if quick else [0, 1, 3], [None, 2],
      SCORES[:5] + SCORES[6:] if quick else SCORES, [seed + 1] if quick else [seed + 1, seed + 2]):
    nc, cats = layout
    evals = max(batch * evmul, count)
    if pad and nc != 3:
      continue            # padding only changes something when a dimension is not a power of two
    if npar is not None and (prior or score not in ('interior', 'corner')):
      continue
    if quick:
      # eagle compiles one XLA program per configuration: keep its quick slice small
      if strat == 'eagle' and not (batch == 5 and evmul == 4 and count == 3 and score in ('interior', 'categorical', 'neginf-region') and layout in LAYOUTS[:5:2] + [LAYOUTS[4]]):
        continue
      if strat == 'random' and score in SCORES[6:] and (count == 1 or npar):
        continue
      if strat == 'random' and score == 'constant' and prior:
        continue
    out.append({'layout': [nc, list(cats)], 'pad': pad, 'strategy': strat, 'count': count, 'batch': batch, 'evals': evals, 'prior': prior,
                'n_parallel': npar, 'score': score, 'seed': sd})
  # eagle well past its pool-initialisation phase (the budget is several times the pool size), where fireflies pull and push each
  # other: non-finite scores (+inf somewhere, -inf almost everywhere) enter the force computation
  for layout in ([LAYOUTS[4], LAYOUTS[5]] if quick else LAYOUTS[1:]):
    for score in ['posinf-region', 'neginf-almost-everywhere', 'neginf-region'] + ([] if quick else ['interior', 'plateau']):
      for evals in ([100] if quick else [100, 400]):
        for prior in ([0] if quick else [0, 3]):
          out.append({'layout': [layout[0], list(layout[1])], 'pad': False, 'strategy': 'eagle', 'count': 3, 'batch': 5, 'evals': evals, 'prior': prior,
                      'n_parallel': None, 'score': score, 'seed': seed + 1})
  # more prior points than the eagle pool holds, the best of them a needle among the oldest ones
  for needle_at in ([(4, 5), (5, 4), (0, 1), (2, 0)] if quick else [(a, b) for a in range(7) for b in range(7) if a != b]):
    out.append({'layout': [2, []], 'pad': False, 'strategy': 'eagle', 'count': 3, 'batch': 25, 'evals': 500, 'prior': 30, 'needle_at': list(needle_at),
                'n_parallel': None, 'score': 'needles', 'seed': seed + 1})
  # a needle in a categorical space (3125 combinations, one of them good, given as a prior point), with and without continuous features
  for layout in ((0, (5, 5, 5, 5, 5)), (1, (5, 5, 5, 5, 5))):
    for pad in (False, True):
      out.append({'layout': [layout[0], list(layout[1])], 'pad': pad, 'strategy': 'eagle', 'count': 3, 'batch': 5, 'evals': 50, 'prior': 3,
                  'n_parallel': None, 'score': 'cat-needle', 'seed': seed + 1})
  # prior points lying outside the unit cube (trials of a wider space): the result must still be in bounds, with honest rewards
  for layout in ([LAYOUTS[4], LAYOUTS[5]] if quick else LAYOUTS[1:]):
    for strat in ('eagle', 'random'):
      for score in ('corner', 'interior') if quick else ('corner', 'interior', 'plateau', 'neginf-region'):
        for count in (1, 3):
          out.append({'layout': [layout[0], list(layout[1])], 'pad': False, 'strategy': strat, 'count': count, 'batch': 5, 'evals': 20 if quick else 100, 'prior': 3, 'prior_out': True,
                      'n_parallel': None, 'score': score, 'seed': seed + 1})
  for c in out:
    c['layout'] = (c['layout'][0], tuple(c['layout'][1]))
  return out


def run(ctx):
  cfgs = configs(ctx.quick, ctx.seed)
  # a few un-traced (use_fori=False) runs of the cheap strategy as a cross-check of the stand-in
  extra = [dict(c, fori=False) for c in cfgs if c['strategy'] == 'random' and c['batch'] == 5 and c['count'] == 3][:12]
  allc = cfgs + extra
  chunks = [allc[i::48] for i in range(48)]
  tot = nontriv = skipped = 0
  refused = {}
  import time
  deadline = time.time() + max(60.0, ctx.budget_s - ctx.elapsed())
  for r in ctx.pmap('shard', [{'configs': ch, 'repeat_every': 3 if ctx.quick else 1, 'deadline': deadline} for ch in chunks if ch]):
    tot += r['n']
    skipped += r.get('skipped', 0)
    nontriv += r['nontrivial']
    for k, v in r['refused'].items():
      refused[k] = v if isinstance(v, str) else refused.get(k, 0) + v
    ctx.extend(r['violations'])
  churn = list(ctx.pmap('churn_shard', [{'tries': 300}]))[0]
  ctx.extend(churn['violations'])
  tot += churn['n']
  nontriv += churn['n']
  return {'evaluations': tot, 'distinct_nontrivial': nontriv, 'converter_churn_scenarios_with_address_reuse': churn['reused'],
          'rule': 'one evaluation = one optimiser configuration (layout, padding, strategy, count, batch, budget, priors, n_parallel, score function, seed) run twice with the same seed; distinct by construction; non-trivial = the optimiser returned a result (refusals are tallied)',
          'samples': [{k: (list(v) if isinstance(v, tuple) else v) for k, v in cfgs[0].items()}, {k: (list(v) if isinstance(v, tuple) else v) for k, v in cfgs[-1].items()}],
          'refused': refused, 'untraced_crosschecks': len(extra), 'configurations_skipped_for_budget': skipped,
          'cap_hit': ('wall-clock budget: %d of %d configurations not run' % (skipped, skipped + tot)) if skipped else None, 'exhaustive': skipped == 0}


def replay(case, ctx):
  cfg = dict(case)
  cfg['layout'] = (case['layout'][0], tuple(case['layout'][1]))
  out = shard({'configs': [cfg]})['violations']
  # re-check without fori_loop tracing before reporting
  out2 = shard({'configs': [dict(cfg, fori=False)]})['violations'] if cfg['strategy'] == 'random' else out
  return [v for v in out if any(w['sig'] == v['sig'] for w in out2)]
