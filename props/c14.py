"""C14 reproducibility: every seeded designer x space x seed is executed once per *environment deviation*
(each in a fresh process: global numpy / python RNG reseeded, wall clock moved, jax x64 toggled, another
study run first, a different hash seed) and must produce the same suggestions as the undisturbed execution;
different seeds must give different streams. Same for seeded benchmark runs."""
import itertools
import json
import os
import subprocess
import sys

LEVEL = 'exploration'
ASSUMPTIONS = [
    'an execution is a fresh python process; deviations enumerated: none, np.random.seed, random.seed, shifted time.time, jax_enable_x64 switched on by constructing a PythiaServicer, consumed jax keys, other studies run first, different PYTHONHASHSEED; all single deviations (thorough: all pairs)',
    'equality is exact (bit-identical floats), except under the x64 toggle where float32-vs-float64 rounding of 1e-6 relative is allowed for designers that compute in jax',
    '"different seeds give different streams" is checked on spaces with a continuous parameter, where a collision by chance is impossible in practice',
    'GP designers only in the thorough tier (equinox stand-in)',
]
PERTS = ['np_seed', 'py_seed', 'time', 'x64', 'jax_key', 'other_first']


def run_designer(name, keys, seed, rounds, batch):
  from props import c03
  from vizier import algorithms as vza
  from vizier import pyvizier as vz
  restart = name.endswith(('@restart', '@restart0'))     # a history with checkpoint restores (dump -> new instance -> load) in it
  unseeded_new_instance = name.endswith('@restart0')
  if name.endswith('@npseed'):            # the seed arrives as a numpy integer (np.arange, rng.integers, SeedSequence, ...)
    import numpy as np
    seed = np.int64(seed)
  name = name.split('@')[0]
  ds = c03.designers('thorough' if name.startswith('gp') else 'quick')
  goals = ('MAXIMIZE', 'MINIMIZE') if name == 'nsga2' else ('MAXIMIZE',)
  prob = c03.problem(keys, goals)
  d = ds[name](prob, seed)
  out = []
  tid = 0
  for r in range(rounds):
    if restart and r in (1, 2, rounds // 2):
      md = d.dump()
      # as a hosting policy does: a new instance built without a seed, then restored - for the designers whose checkpoint
      # carries their random stream; NSGA-II's does not (its stream is not part of its state), it is rebuilt with the seed
      d2 = ds[name](prob, None if (unseeded_new_instance and name in ('eagle', 'quasi_random', 'shuffled_grid')) else seed)
      d2.load(md)
      d = d2
    sugg = list(d.suggest(batch))
    out.append([sorted((k, v if isinstance(v, str) else float(v)) for k, v in s.parameters.as_dict().items()) for s in sugg])
    trials = []
    for s in sugg:
      tid += 1
      t = s.to_trial(tid)
      t.complete(vz.Measurement({m.name: float((tid * 3 + j) % 5) for j, m in enumerate(prob.metric_information)}))
      trials.append(t)
    d.update(vza.CompletedTrials(trials), vza.ActiveTrials([]))
  return out


def run_benchmark(algo, exp, seed):
  from props import c03
  from vizier._src.benchmarks.runners import benchmark_runner, benchmark_state
  from vizier._src.benchmarks.experimenters import numpy_experimenter
  from vizier._src.benchmarks.experimenters.synthetic import bbob, branin
  e = branin.Branin2DExperimenter() if exp == 'branin' else numpy_experimenter.NumpyExperimenter(bbob.Sphere, bbob.DefaultBBOBProblemStatement(2))
  ds = c03.designers('quick')

  def factory(problem, seed=None, **kw):
    return ds[algo](problem, seed)
  sf = benchmark_state.DesignerBenchmarkStateFactory(designer_factory=factory, experimenter=e)
  state = sf(seed=seed)
  runner = benchmark_runner.BenchmarkRunner(
      benchmark_subroutines=[benchmark_runner.GenerateSuggestions(batch_size=2), benchmark_runner.EvaluateActiveTrials(1),
                             benchmark_runner.GenerateAndEvaluate(batch_size=2), benchmark_runner.FillActiveTrials(3), benchmark_runner.EvaluateActiveTrials()],
      num_repeats=2)
  runner.run(state)
  out = []
  for t in state.algorithm.supporter.GetTrials():
    out.append([t.id, sorted((k, float(v) if not isinstance(v, str) else v) for k, v in t.parameters.as_dict().items()),
                None if t.final_measurement is None else sorted((k, float(m.value)) for k, m in t.final_measurement.metrics.items())])
  return out


def child(task):
  env = dict(os.environ)
  env['PYTHONHASHSEED'] = str(task.get('hashseed', 0))
  verif = os.path.dirname(os.path.dirname(os.path.abspath(__file__)))
  p = subprocess.run([sys.executable, '-m', 'vfw.c14child', json.dumps(task)], cwd=verif, env=env, capture_output=True, text=True, timeout=3000)
  for line in p.stdout.splitlines():
    if line.startswith('@@RESULT@@'):
      return {'task': task, 'result': json.loads(line[len('@@RESULT@@'):])}
  return {'task': task, 'result': None, 'stderr': p.stderr[-800:]}


def _close(a, b, tol):
  if isinstance(a, list) and isinstance(b, list):
    return len(a) == len(b) and all(_close(x, y, tol) for x, y in zip(a, b))
  if isinstance(a, float) and isinstance(b, float):
    return a == b or abs(a - b) <= tol * max(1.0, abs(a), abs(b))
  return a == b


def run(ctx):
  q = ctx.quick
  s = ctx.seed + 1
  designers = ['random', 'quasi_random', 'shuffled_grid', 'eagle', 'nsga2', 'cmaes']
  spaces = [('d01', 'c5'), ('dlog', 'i015'), ('d-55', 'd01'), ('d01', 'c5', 'x2'), ('x3d', 'd01')]
  jobs = []
  for name in designers:
    for sp in spaces:
      if name == 'cmaes' and sp != ('d-55', 'd01'):
        continue
      if sp in (('d01', 'c5', 'x2'), ('x3d', 'd01')) and name not in ('eagle', 'nsga2', 'random'):
        continue
      for seed in (s, s + 1):
        jobs.append([name, list(sp), seed])
      if name in ('eagle', 'nsga2', 'quasi_random', 'shuffled_grid') and sp == spaces[0]:
        jobs.append([name + '@restart', list(sp), s])      # new instance built with the same seed
        if name != 'nsga2':
          jobs.append([name + '@restart0', list(sp), s])   # new instance built without a seed
      if sp == spaces[0] or (name == 'cmaes'):
        jobs.append([name + '@npseed', list(sp), s])
  benchmarks = [[a, e, sd] for a in ('random', 'quasi_random', 'eagle', 'nsga2', 'shuffled_grid') for e in ('branin', 'sphere') for sd in (s, s + 1)]
  if not q:
    for name in ('gp_bandit', 'gp_ucb_pe'):
      for sp in (('d01', 'c5'), ('d-55', 'd01')):
        for seed in (s, s + 1):
          jobs.append([name, list(sp), seed])
  pert_sets = [[]] + [[p] for p in PERTS]
  if not q:
    pert_sets += [list(c) for c in itertools.combinations(PERTS, 2)]
  R = 9 if q else 14     # rounds x batch 2: well past the point where eagle's pool is full / NSGA-II mutates
  tasks = [{'perturbations': ps, 'jobs': jobs, 'benchmarks': benchmarks, 'rounds': R, 'gp_rounds': 4, 'batch': 2, 'hashseed': 0} for ps in pert_sets]
  for hs in (4242, 1, 987654321):
    tasks.append({'perturbations': [], 'jobs': jobs, 'benchmarks': benchmarks, 'rounds': R, 'gp_rounds': 4, 'batch': 2, 'hashseed': hs})
  tasks.append({'perturbations': [], 'jobs': jobs, 'benchmarks': benchmarks, 'rounds': R, 'gp_rounds': 4, 'batch': 2, 'hashseed': 0})   # plain repeat
  results = list(ctx.pmap('child', tasks))
  base = results[0]
  if base['result'] is None:
    from vfw.runner import HarnessError
    raise HarnessError('baseline execution failed: %s' % base.get('stderr'))
  pairs = n_err = 0
  errs = {}
  broken_by_single = set()      # (who, perturbation) pairs that already differ under that one perturbation alone
  for r in results[1:]:
    tag = '+'.join(r['task']['perturbations']) or ('hashseed' if r['task']['hashseed'] else 'repeat')
    if r['result'] is None:
      ctx.violation('C14|execution-failed|%s' % tag, 'execution under %s failed: %s' % (tag, r.get('stderr')), {'perturbations': r['task']['perturbations']})
      continue
    for key, val in base['result'].items():
      other = r['result'].get(key)
      pairs += 1
      if isinstance(val, str) or isinstance(other, str):
        if val != other:
          ctx.violation('C14|refusal-differs|%s|%s' % (key.split('|')[0] if not key.startswith('bench') else 'bench:' + key.split('|')[1], tag),
                        '%s: %s vs %s under %s' % (key, val, other, tag), {'key': key, 'perturbations': r['task']['perturbations']})
        errs[key] = val
        continue
      tol = 1e-6 if 'x64' in r['task']['perturbations'] else 0.0
      if not _close(val, other, tol):
        who = key.split('|')[0].split('@')[0] if not key.startswith('bench') else 'bench:' + key.split('|')[1]
        ps = r['task']['perturbations']
        if len(ps) == 1:
          broken_by_single.add((who, ps[0]))
        elif any((who, p_) in broken_by_single for p_ in ps):
          continue        # a pair of perturbations one of which breaks this designer on its own: already reported under that one
        ctx.violation('C14|not-reproducible|%s|%s' % (who, tag), '%s: same seed, different result under %s:\n  %s\n  %s' % (key, tag, json.dumps(val)[:300], json.dumps(other)[:300]),
                      {'key': key, 'perturbations': r['task']['perturbations']})
  # the same seed, problem and history must give the same suggestions however often the designer was check-pointed on the way
  # (designers whose whole stream is fixed by the seed: quasi-random, shuffled grid)
  for name, sp, seed in jobs:
    if name.endswith(('@restart', '@restart0')) and name.split('@')[0] in ('quasi_random', 'shuffled_grid'):
      a = base['result'].get('%s|%s|%d' % (name.split('@')[0], '+'.join(sp), seed))
      b = base['result'].get('%s|%s|%d' % (name, '+'.join(sp), seed))
      pairs += 1
      if not isinstance(a, str) and not isinstance(b, str) and a != b:
        ctx.violation('C14|not-reproducible|%s|checkpoint-restores' % name.split('@')[0],
                      '%s on %s seed %d: the run with dump/load restores in it differs from the plain run:\n  %s\n  %s' % (name.split('@')[0], sp, seed, json.dumps(a)[:300], json.dumps(b)[:300]),
                      {'designer': name, 'space': sp})
  # a seed is a number: given as a numpy integer it selects the same stream as the equal Python int
  for name, sp, seed in jobs:
    if name.endswith('@npseed'):
      a = base['result'].get('%s|%s|%d' % (name.split('@')[0], '+'.join(sp), seed))
      b = base['result'].get('%s|%s|%d' % (name, '+'.join(sp), seed))
      pairs += 1
      if not isinstance(a, str) and not isinstance(b, str) and a != b:      # (a designer may refuse the type with an error)
        ctx.violation('C14|numpy-integer-seed-differs|%s' % name.split('@')[0],
                      '%s on %s: seed np.int64(%d) gives %s, seed %d gives %s' % (name.split('@')[0], sp, seed, json.dumps(b)[:240], seed, json.dumps(a)[:240]), {'designer': name, 'space': sp})
  # different seeds -> different streams
  seeds_checked = 0
  for name, sp, seed in jobs:
    if seed != s or name in ('grid',) or '@' in name:
      continue
    a = base['result'].get('%s|%s|%d' % (name, '+'.join(sp), s))
    b = base['result'].get('%s|%s|%d' % (name, '+'.join(sp), s + 1))
    if isinstance(a, str) or isinstance(b, str):
      continue
    seeds_checked += 1
    if a == b:
      ctx.violation('C14|seed-ignored|%s' % name, '%s on %s: seeds %d and %d give the identical stream %s' % (name, sp, s, s + 1, json.dumps(a)[:200]), {'designer': name, 'space': sp})
  return {'evaluations': len(results) * (len(jobs) + len(benchmarks)), 'distinct_nontrivial': pairs,
          'rule': 'one evaluation = one (designer|benchmark, space, seed) run inside one execution (fresh process with one set of environment deviations); distinct_nontrivial = run pairs (undisturbed vs deviated execution) compared',
          'samples': [{'designer': 'eagle', 'space': ['dlog', 'i015'], 'seed': s, 'deviation': 'np_seed'}, {'benchmark': 'nsga2 on branin', 'seed': s + 1, 'deviation': 'time'}],
          'executions': len(results), 'deviation_sets': [t['perturbations'] for t in tasks], 'seed_pairs_checked': seeds_checked,
          'refused_runs': {k: v for k, v in list(errs.items())[:20]}, 'exhaustive': True}


def replay(case, ctx):
  return []
