"""C15 feature encoding: full product of (parameter config x converter options x feasible points / arbitrary
feature values) through DefaultModelInputConverter, TrialToArrayConverter, PaddedTrialToArrayConverter,
TrialToModelInputConverter, ProblemAndTrialsScaler and DefaultModelOutputConverter."""
import itertools
import math

import numpy as np

LEVEL = 'exploration'
ASSUMPTIONS = [
    'parameter catalogue: DOUBLE linear/log/reverse-log incl. singleton, huge and tiny ranges; INTEGER small / >10 values / log; DISCRETE 1, 2, 12 values, negative, log; CATEGORICAL 1, 2, 5 values; bool',
    'decode-into-space is demanded with should_clip=True (clipping off leaves out-of-range values in place by design); integer index features equal to the documented out-of-vocabulary code decode to "parameter absent" and are excluded',
    'continuous round trip tolerance: 4 ulp of the converter dtype relative to the parameter range (absolute in scaled space for log scales)',
    'a range that the chosen dtype cannot represent (1e-300 in float32) is not generated; an integer beyond 2**24 through a float32 converter must come back within 4 ulp (it is not a float32 number) and inside the bounds, exactly through float64',
    'safety metrics are excluded from the label round trip, as the property says',
]


def catalogue():
  from vizier import pyvizier as vz
  F = vz.ParameterConfig.factory
  S = vz.ScaleType
  ss = vz.SearchSpace()
  ss.root.add_bool_param('p')
  return {
      'd01': F('p', bounds=(0.0, 1.0)), 'd-55': F('p', bounds=(-5.0, 5.0), scale_type=S.LINEAR), 'dlog': F('p', bounds=(1e-3, 1e3), scale_type=S.LOG),
      'drlog': F('p', bounds=(1e-3, 1e3), scale_type=S.REVERSE_LOG), 'dsingle': F('p', bounds=(2.0, 2.0)), 'dhuge': F('p', bounds=(-1e9, 1e9)),
      'dtiny': F('p', bounds=(1e-300, 1e-299)), 'dlog-narrow': F('p', bounds=(1.0, 1.0001), scale_type=S.LOG),
      'ibig': F('p', bounds=(16777210, 16777219)), 'inegbig': F('p', bounds=(-1000000090, -1000000001)),   # bounds float32 cannot represent
      'i00': F('p', bounds=(0, 0)), 'i-22': F('p', bounds=(-2, 2)), 'i015': F('p', bounds=(0, 15)), 'ilog': F('p', bounds=(1, 1000), scale_type=S.LOG),
      'x7': F('p', feasible_values=[7.0]), 'x2': F('p', feasible_values=[0.3, 7.2]), 'x12': F('p', feasible_values=[float(i) * 1.5 for i in range(12)]),
      'xneg': F('p', feasible_values=[-3.0, -1.0, 0.0, 2.5]), 'xlog': F('p', feasible_values=[0.01, 1.0, 100.0], scale_type=S.LOG),
      'c1': F('p', feasible_values=['only']), 'c2': F('p', feasible_values=['a', 'b']), 'c5': F('p', feasible_values=['a', 'b', 'c', 'd', 'e']),
      'bool': ss.get('p'),
      # "siblings": same name, kind and number of values, overlapping values at different positions (two studies of one
      # process may well look like this; anything cached per parameter *shape* instead of per parameter shows here)
      'x3a': F('p', feasible_values=[1.0, 2.0, 3.0]), 'x3b': F('p', feasible_values=[2.0, 3.0, 4.0]),
      'c3a': F('p', feasible_values=['a', 'b', 'c']), 'c3b': F('p', feasible_values=['b', 'c', 'd']),
      'i14': F('p', bounds=(1, 4)), 'i25': F('p', bounds=(2, 5)),
      # feasible values that are distinct float64 numbers but closer than any "isclose" default (float64 converters only)
      'xclose': F('p', feasible_values=[1.0, 1.0000000005, 2.0, 2.0000000000000004]),
  }


def points(pc):
  from vizier import pyvizier as vz
  if pc.type == vz.ParameterType.DOUBLE:
    lo, hi = pc.bounds
    if lo == hi:
      return [lo]
    if pc.scale_type in (vz.ScaleType.LOG, vz.ScaleType.REVERSE_LOG):
      return [lo] + [min(hi, max(lo, lo * (hi / lo) ** t)) for t in (0.25, 0.5, 0.9)] + [hi]
    return [lo, lo + (hi - lo) * 0.25, (lo + hi) / 2, lo + (hi - lo) * 0.9, hi]
  if pc.type == vz.ParameterType.INTEGER:
    lo, hi = pc.bounds
    return list(range(lo, hi + 1)) if hi - lo <= 20 else [lo, lo + 1, (lo + hi) // 2, hi - 1, hi]
  return list(pc.feasible_values)


def in_domain(pc, v):
  from vizier import pyvizier as vz
  if v is None:
    return False
  if pc.type == vz.ParameterType.DOUBLE:
    return isinstance(v, float) and pc.bounds[0] <= v <= pc.bounds[1]
  if pc.type == vz.ParameterType.INTEGER:
    return float(v) == int(v) and pc.bounds[0] <= v <= pc.bounds[1]
  if pc.type == vz.ParameterType.DISCRETE:
    return float(v) in [float(x) for x in pc.feasible_values]
  return v in pc.feasible_values


def same_value(pc, v, w, dtype):
  from vizier import pyvizier as vz
  if w is None:
    return False
  if pc.type == vz.ParameterType.DOUBLE:
    lo, hi = pc.bounds
    eps = np.finfo(dtype).eps
    if pc.scale_type in (vz.ScaleType.LOG, vz.ScaleType.REVERSE_LOG):
      return abs(math.log(max(w, 1e-320)) - math.log(v)) <= 8 * eps * max(1.0, abs(math.log(hi) - math.log(lo)), abs(math.log(lo)), abs(math.log(hi))) or abs(w - v) <= 8 * eps * (hi - lo)
    return abs(w - v) <= 4 * eps * max(hi - lo, abs(lo), abs(hi), 1e-300)
  if pc.type in (vz.ParameterType.INTEGER, vz.ParameterType.DISCRETE):
    if float(w) != float(v) and dtype == np.float32 and abs(float(v)) > 2 ** 24:
      # the value itself is not a float32 number: the nearest representable neighbours are all that can be asked for
      return abs(float(w) - float(v)) <= 4 * np.finfo(np.float32).eps * abs(float(v))
    return float(w) == float(v)
  return w == v


CONT = [-1e30, -1.0, -1e-9, 0.0, 0.5, 1.0, 1.0 + 1e-9, 2.0, 1e30]


def part_single(task):
  """DefaultModelInputConverter: one parameter, all option combinations."""
  from vizier import pyvizier as vz
  from vizier.pyvizier.converters import core
  cat = catalogue()
  vios, n, nontriv = {}, 0, 0

  def V(clause, key, text, opts):
    kind = cat[key].type.name + ((':' + cat[key].scale_type.name) if cat[key].scale_type is not None and cat[key].type.name == 'DOUBLE' else '')
    sig = 'C15|%s|%s' % (clause, kind)
    vios.setdefault(sig, {'sig': sig, 'desc': 'parameter %s options %s: %s' % (key, opts, text), 'case': {'part': 'single', 'param': key, 'opts': repr(opts)}})

  for key in task['keys']:
    pc = cat[key]
    for scale, onehot, pad, mdi, dt, clip in itertools.product([False, True], [False, True], [False, True], [0, 10, 1000], [np.float32, np.float64], [True, False]):
      if key in ('dtiny', 'xclose') and dt == np.float32:
        continue   # 1e-300 is not representable in float32 at all; nor can float32 tell the values of 'xclose' apart
      opts = dict(scale=scale, onehot_embed=onehot, pad_oovs=pad, max_discrete_indices=mdi, float_dtype=dt, should_clip=clip)
      try:
        conv = core.DefaultModelInputConverter(pc, **opts)
      except Exception as e:  # pylint: disable=broad-except
        V('converter-construction-raises', key, repr(e)[:100], opts)
        continue
      spec = conv.output_spec
      pts = points(pc)
      feats = []
      for v in pts:
        n += 1
        nontriv += 1
        try:
          x = conv.convert([vz.Trial(parameters={'p': v})])
          back = conv.to_parameter_values(x)[0]
        except Exception as e:  # pylint: disable=broad-except
          V('convert-raises', key, 'value %r: %r' % (v, e), opts)
          continue
        feats.append(np.asarray(x, dtype=np.float64).flatten())
        bw = None if back is None else back.value
        if not same_value(pc, v, bw, dt):
          V('roundtrip', key, 'encode %r -> %s -> decode %r' % (v, np.asarray(x).tolist(), bw), opts)
        if spec.type == core.NumpyArraySpecType.ONEHOT_EMBEDDING:
          row = np.asarray(x).flatten()
          if not (abs(row.sum() - 1.0) < 1e-6 and (row == 1).sum() == 1 and ((row == 0) | (row == 1)).all()):
            V('onehot-not-single', key, 'value %r encodes to %s' % (v, row.tolist()), opts)
        if scale and spec.type == core.NumpyArraySpecType.CONTINUOUS:
          f = float(np.asarray(x).flatten()[0])
          if not (-1e-6 <= f <= 1 + 1e-6):
            V('scaled-outside-unit-interval', key, 'value %r scales to %r' % (v, f), opts)
      # orientation: lo -> 0 (or 0.5 for a singleton), hi -> 1, increasing
      if scale and spec.type == core.NumpyArraySpecType.CONTINUOUS and len(feats) >= 2:
        fs = [float(f[0]) for f in feats]
        if not (abs(fs[0]) < 1e-5 and abs(fs[-1] - 1) < 1e-5):
          V('orientation', key, 'lowest value scales to %r and highest to %r' % (fs[0], fs[-1]), opts)
        srt = sorted(zip(pts, fs))
        if any(b[1] < a[1] - 1e-7 for a, b in zip(srt, srt[1:])):
          V('scaling-not-monotone', key, 'values %s scale to %s' % (pts, fs), opts)
      # decode arbitrary arrays
      if spec.type == core.NumpyArraySpecType.CONTINUOUS:
        big = 0.9 * float(np.finfo(dt).max)
        arrs = [np.array([[c]], dtype=dt) for c in CONT + [big, -big, np.inf, -np.inf]]
        arrs += [np.array([[c]], dtype=np.float64) for c in (1e300, -1e300)]     # an optimiser working in float64 feeding a float32 converter
      elif spec.type == core.NumpyArraySpecType.ONEHOT_EMBEDDING:
        D = spec.num_dimensions
        arrs = [np.zeros((1, D), dt), np.ones((1, D), dt), -np.ones((1, D), dt), np.full((1, D), 0.5, dt)]
        eye = np.eye(D, dtype=dt)
        idxs = range(D - spec.num_oovs) if D <= 40 else [0, 1, D // 2, D - spec.num_oovs - 1]
        arrs += [eye[i:i + 1] for i in idxs]
        arrs += [eye[i:i + 1] * 1e30 - 5 for i in range(min(D, 2))]
      else:
        k = len(pc.feasible_values) if pc.type.name in ('DISCRETE', 'CATEGORICAL') else int(pc.bounds[1] - pc.bounds[0] + 1)
        arrs = [np.array([[i]], dtype=spec.dtype) for i in (range(k) if k <= 40 else [0, 1, k // 2, k - 1])]
      for a in arrs:
        n += 1
        nontriv += 1
        try:
          a2 = a.copy()
          back = conv.to_parameter_values(a2)[0]
        except Exception as e:  # pylint: disable=broad-except
          V('decode-raises', key, 'array %s: %r' % (a.tolist(), e), opts)
          continue
        if not np.array_equal(a2, a, equal_nan=True):
          V('feature-array-modified', key, 'decoding changed the feature array it was given: %s -> %s' % (a.tolist(), a2.tolist()), opts)
        bw = None if back is None else back.value
        if clip and not in_domain(pc, bw):
          V('decode-outside-space', key, 'array %s decodes to %r' % (a.tolist(), bw), opts)
  return {'n': n, 'nontrivial': nontriv, 'violations': list(vios.values())}


def _problem(keys, goals=('MAXIMIZE',)):
  from vizier import pyvizier as vz
  cat = catalogue()
  p = vz.ProblemStatement()
  import attr
  for i, k in enumerate(keys):
    pc = attr.evolve(cat[k], name='p%d' % i)
    p.search_space.add(pc)
  for j, g in enumerate(goals):
    p.metric_information.append(vz.MetricInformation('m%d' % j, goal=getattr(vz.ObjectiveMetricGoal, g)))
  return p


def part_space(task):
  """Whole-space converters on 1-3 parameter spaces."""
  from vizier import pyvizier as vz
  from vizier.pyvizier import converters
  from vizier.pyvizier.converters import core, embedder, jnp_converters, padding
  cat = catalogue()
  vios, n, nontriv = {}, 0, 0

  def V(clause, conv, text, keys):
    sig = 'C15|%s|%s' % (clause, conv)
    vios.setdefault(sig, {'sig': sig, 'desc': 'space %s: %s' % (keys, text), 'case': {'part': 'space', 'keys': list(keys)}})

  for keys in task['spaces']:
    prob = _problem(keys)
    pcs = prob.search_space.parameters
    grids = [points(pc)[:5] for pc in pcs]
    trials = [vz.Trial(parameters={pc.name: v for pc, v in zip(pcs, vals)}) for vals in itertools.product(*grids)]

    def check_back(name, params_list, dtype, trials=trials):
      for t, back in zip(trials, params_list):
        for pc in pcs:
          bw = back.get_value(pc.name) if pc.name in back else None
          if not same_value(pc, t.parameters[pc.name].value, bw, dtype):
            V('roundtrip', name, 'trial %r decodes to %r' % (t.parameters.as_dict(), back.as_dict()), keys)
            return

    def check_in_space(name, params_list, what):
      for back in params_list:
        for pc in pcs:
          bw = back.get_value(pc.name) if pc.name in back else None
          if not in_domain(pc, bw):
            V('decode-outside-space', name, '%s decodes to %r' % (what, back.as_dict()), keys)
            return

    for scale, pad, mdi, dt in itertools.product([True, False], [True, False], [0, 10, 1000], [np.float32, np.float64]):
      if ('dtiny' in keys or 'xclose' in keys) and dt == np.float32:
        continue
      n += len(trials)
      nontriv += len(trials)
      name = 'TrialToArrayConverter'
      try:
        c = converters.TrialToArrayConverter.from_study_config(prob, scale=scale, pad_oovs=pad, max_discrete_indices=mdi, dtype=dt)
        X = c.to_features(trials)
        check_back(name, c.to_parameters(X), dt)
        if scale and not ((X >= -1e-6) & (X <= 1 + 1e-6)).all():
          V('scaled-outside-unit-interval', name, 'features %s' % X[(X < -1e-6) | (X > 1 + 1e-6)][:3].tolist(), keys)
        D = X.shape[1]
        big = 0.9 * float(np.finfo(dt).max)
        for fill in (-1e30, -1.0, 0.0, 0.5, 1.0, 1.0 + 1e-9, 2.0, 1e30, big, -big, np.inf, -np.inf):
          n += 1
          check_in_space(name, c.to_parameters(np.full((1, D), fill, dtype=dt)), 'array filled with %r' % fill)
        for fill in (1e300, -1e300):
          n += 1
          check_in_space(name, c.to_parameters(np.full((1, D), fill, dtype=np.float64)), 'float64 array filled with %r' % fill)
        alt = np.array([[(-1) ** i * (i + 1) * 0.7 for i in range(D)]], dtype=dt)
        check_in_space(name, c.to_parameters(alt), 'alternating array')
      except Exception as e:  # pylint: disable=broad-except
        V('raises', name, repr(e)[:160], keys)
    # padded converter, model-input converter, scaler
    for sched in ('none', 'pow2'):
      name = 'PaddedTrialToArrayConverter'
      n += len(trials)
      nontriv += len(trials)
      try:
        ps = padding.PaddingSchedule(num_trials=padding.PaddingType.NONE if sched == 'none' else padding.PaddingType.POWERS_OF_2,
                                     num_features=padding.PaddingType.NONE if sched == 'none' else padding.PaddingType.POWERS_OF_2)
        c = jnp_converters.PaddedTrialToArrayConverter.from_study_config(prob, padding_schedule=ps)
        X = c.to_features(trials)
        unp = np.asarray(X.unpad())
        if 'xclose' not in keys:      # (a float32 path)
          check_back(name, c.to_parameters(unp), np.float32)
        full = np.asarray(X.padded_array)
        if full.shape[0] > unp.shape[0] or full.shape[1] > unp.shape[1]:
          mask = np.ones(full.shape, bool)
          mask[:unp.shape[0], :unp.shape[1]] = False
          if np.any(full[mask] != X.fill_value) and np.any(np.nan_to_num(full[mask]) != 0):
            V('padding-leaks', name, 'padded region holds %s' % np.unique(full[mask])[:4].tolist(), keys)
      except Exception as e:  # pylint: disable=broad-except
        V('raises', name, repr(e)[:160], keys)
      name = 'TrialToModelInputConverter'
      try:
        c = jnp_converters.TrialToModelInputConverter.from_problem(prob, padding_schedule=ps)
        mi = c.to_features(trials)
        if 'xclose' not in keys:
          check_back(name, c.to_parameters(mi), np.float32)
      except Exception as e:  # pylint: disable=broad-except
        V('raises', name, repr(e)[:160], keys)
    name = 'ProblemAndTrialsScaler'
    if 'xclose' in keys:
      continue      # (a float32 path: it cannot tell these values apart and says so)
    n += len(trials)
    nontriv += len(trials)
    try:
      sc = embedder.ProblemAndTrialsScaler(prob)
      mapped = sc.map(trials)
      emb = sc.problem_statement.search_space
      for t in mapped:
        for pc in emb.parameters:
          v = t.parameters[pc.name].value
          if pc.type == vz.ParameterType.DOUBLE and not (pc.bounds[0] - 1e-9 <= v <= pc.bounds[1] + 1e-9):
            V('scaled-outside-unit-interval', name, 'mapped trial %r' % t.parameters.as_dict(), keys)
      back = sc.unmap(mapped)
      if 'xclose' not in keys:
        check_back(name, [b.parameters for b in back], np.float32)
    except Exception as e:  # pylint: disable=broad-except
      V('raises', name, repr(e)[:160], keys)
  return {'n': n, 'nontrivial': nontriv, 'violations': list(vios.values())}


def part_labels(task):
  from vizier import pyvizier as vz
  from vizier.pyvizier.converters import core
  vios, n, nontriv = {}, 0, 0
  vals = [0.0, -0.0, 1.0, -1.0, 1e-9, 2.5, -1e18, 1e18, 3.0000001]
  for goal, flip, dt, raise_missing in itertools.product(['MAXIMIZE', 'MINIMIZE'], [True, False], [np.float32, np.float64], [True, False]):
    mi = vz.MetricInformation('m', goal=getattr(vz.ObjectiveMetricGoal, goal))
    c = core.DefaultModelOutputConverter(mi, flip_sign_for_minimization_metrics=flip, dtype=dt, raise_errors_for_missing_metrics=raise_missing)
    ms = [vz.Measurement({'m': v, 'other': 9.0}) for v in vals]
    n += len(ms)
    nontriv += len(ms)
    lab = c.convert(ms)
    sign = -1.0 if (flip and goal == 'MINIMIZE') else 1.0
    for v, l in zip(vals, lab.flatten()):
      if not math.isclose(float(l), sign * v, rel_tol=4 * np.finfo(dt).eps, abs_tol=1e-300):
        sig = 'C15|label-sign-convention|%s' % goal
        vios.setdefault(sig, {'sig': sig, 'desc': 'goal %s flip=%s: value %r converts to %r' % (goal, flip, v, float(l)), 'case': {'part': 'labels'}})
    # both documented label shapes, each decoded twice from the same array; the caller's array is an input, not scratch space
    for shape_name, arr in (('(num, 1)', np.array(lab).reshape(-1, 1)), ('(num,)', np.array(lab).reshape(-1))):
      before = arr.copy()
      for attempt in (1, 2):
        back = c.to_metrics(arr)
        for v, b in zip(vals, back):
          if b is None or not math.isclose(b.value, v, rel_tol=4 * np.finfo(dt).eps, abs_tol=1e-300):
            sig = 'C15|label-roundtrip|%s' % goal
            vios.setdefault(sig, {'sig': sig, 'desc': 'goal %s flip=%s dtype=%s labels of shape %s, decode #%d: %r -> %r' % (goal, flip, dt.__name__, shape_name, attempt, v, None if b is None else b.value), 'case': {'part': 'labels'}})
        if not np.array_equal(arr, before):
          sig = 'C15|label-array-modified|%s' % goal
          vios.setdefault(sig, {'sig': sig, 'desc': 'goal %s flip=%s dtype=%s: to_metrics changed the label array of shape %s it was given: %s -> %s' % (goal, flip, dt.__name__, shape_name, before.flatten()[:4].tolist(), arr.flatten()[:4].tolist()), 'case': {'part': 'labels'}})
    ms_before = [dict((k, m_.value) for k, m_ in m.metrics.items()) for m in ms]
    c.convert(ms)
    if [dict((k, m_.value) for k, m_ in m.metrics.items()) for m in ms] != ms_before:
      sig = 'C15|measurements-modified|%s' % goal
      vios.setdefault(sig, {'sig': sig, 'desc': 'goal %s flip=%s: convert changed the measurements it was given' % (goal, flip), 'case': {'part': 'labels'}})
    if c.metric_information.goal.name != ('MAXIMIZE' if (flip and goal == 'MINIMIZE') else goal):
      sig = 'C15|label-metric-information|%s' % goal
      vios.setdefault(sig, {'sig': sig, 'desc': 'converter reports goal %s for goal=%s flip=%s' % (c.metric_information.goal.name, goal, flip), 'case': {'part': 'labels'}})
  return {'n': n, 'nontrivial': nontriv, 'violations': list(vios.values())}


def run(ctx):
  keys = list(catalogue())
  tasks = [('part_single', {'keys': [k]}) for k in keys]
  sib = ['x3a', 'x3b', 'c3a', 'c3b', 'i14', 'i25']
  tasks.append(('part_single', {'keys': sib + sib[::-1]}))       # one process, both orders
  tasks.append(('part_space', {'spaces': [(k,) for k in sib + sib[::-1]] + [('x3a', 'c3a'), ('x3b', 'c3b'), ('x3a', 'c3a')]}))
  tasks.append(('part_labels', {}))
  spaces = [(k,) for k in keys]
  pair_keys = ['d-55', 'dlog', 'i-22', 'i015', 'x2', 'x12', 'c2', 'c5', 'bool', 'dsingle']
  spaces += list(itertools.combinations(pair_keys, 2))
  if not ctx.quick:
    spaces += list(itertools.combinations(['d-55', 'drlog', 'i-22', 'x12', 'c5', 'bool', 'ilog'], 3))
  for i in range(0, len(spaces), 4):
    tasks.append(('part_space', {'spaces': spaces[i:i + 4]}))
  tot = nontriv = 0
  per = {}
  by = {}
  for fn, t in tasks:
    by.setdefault(fn, []).append(t)
  for fn, ts in by.items():
    for r in ctx.pmap(fn, ts):
      tot += r['n']
      nontriv += r['nontrivial']
      per[fn] = per.get(fn, 0) + r['n']
      ctx.extend(r['violations'])
  return {'evaluations': tot, 'distinct_nontrivial': nontriv,
          'rule': 'full product of catalogue x converter options x (feasible points | arbitrary feature values); every case is distinct by construction and exercises encode and/or decode',
          'samples': [{'param': 'drlog', 'opts': {'scale': True, 'float_dtype': 'float32'}, 'value': 1e-3}, {'space': ['x12', 'bool'], 'array': 'filled with 1e30'}],
          'cases_per_part': per, 'spaces': len(spaces), 'exhaustive': True}


def replay(case, ctx):
  if case.get('part') == 'single':
    return part_single({'keys': [case['param']]})['violations']
  if case.get('part') == 'space':
    return part_space({'spaces': [tuple(case['keys'])]})['violations']
  return part_labels({})['violations']
