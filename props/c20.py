"""C20 benchmark experimenters: every base experimenter and every stacking of wrapper experimenters up to
the stated depth, evaluated at every point of a corner/mid grid of its search space, in batches.

The relation of each wrapper W(I) is checked against its *inner* experimenter I called by the harness at the
mapped point, so stacks of any depth are covered inductively (I ranges over bases and wrapped bases).
"""
import copy
import itertools
import math

import numpy as np

LEVEL = 'exploration'
ASSUMPTIONS = [
    'points: full product of {lo, mid, hi} (DOUBLE), {lo, hi} (INTEGER), all feasible values (DISCRETE / CATEGORICAL), capped at 4 dimensions by taking lo/hi only beyond that',
    '"completes every trial with the metrics named in the problem statement" is read as a superset (the noise wrapper documents extra *_before_noise metrics)',
    'optional benchmark data sets (NASBench, HPOB, Atari, surrogate, combo, L1-categorical) are not enumerated: they need files that are not in the sandbox or are not named by the property',
    'shifting without bound restriction moves grid points outside the inner domain (by design, at the caller\'s risk): only the trivial shift 0 is used with should_restrict=False',
    'noise wrappers are only placed outermost (their stream makes an inner experimenter non-repeatable)',
]


def _vz():
  from vizier import pyvizier as vz
  return vz


# ---- bases -------------------------------------------------------------------------------------
def bases(quick):
  vz = _vz()
  from vizier._src.benchmarks.experimenters import numpy_experimenter as ne
  from vizier._src.benchmarks.experimenters.synthetic import bbob, branin, hartmann, simplekd
  out = {}
  fns = ['Sphere', 'Rastrigin', 'BuecheRastrigin', 'LinearSlope', 'AttractiveSector', 'StepEllipsoidal', 'RosenbrockRotated', 'Ellipsoidal', 'Discus',
         'BentCigar', 'SharpRidge', 'DifferentPowers', 'Weierstrass', 'SchaffersF7', 'SchaffersF7IllConditioned', 'GriewankRosenbrock', 'Schwefel', 'Katsuura',
         'Lunacek', 'Gallagher101Me', 'Gallagher21Me', 'NegativeSphere', 'NegativeMinDifference', 'FonsecaFleming']
  for fn in fns:
    for dim in ((2,) if quick else (2, 3)):   # the BBOB definitions divide by (dim - 1): dimension 1 is not a BBOB problem
      out['bbob:%s:%d' % (fn, dim)] = (lambda fn=fn, dim=dim: ne.NumpyExperimenter(getattr(bbob, fn), bbob.DefaultBBOBProblemStatement(dim)))
  out['branin'] = branin.Branin2DExperimenter
  out['hartmann3'] = hartmann.HartmannExperimenter.from_3d
  out['hartmann6'] = hartmann.HartmannExperimenter.from_6d
  for cat in ('corner', 'center', 'mixed'):
    for rel in (True, False):
      out['simplekd:%s:%s' % (cat, rel)] = (lambda cat=cat, rel=rel: simplekd.SimpleKDExperimenter(cat, output_relative_error=rel))
  try:
    from vizier._src.benchmarks.experimenters.synthetic import multiobjective_optproblems as mo
    for name in ('ZDT1', 'ZDT2', 'ZDT3'):
      out['zdt:%s' % name] = (lambda name=name: mo.ZDTExperimenterFactory(name=name, dim=2)())
  except Exception:  # pylint: disable=broad-except
    pass
  try:
    from vizier._src.benchmarks.experimenters.synthetic import deb
    out['deb:DH1'] = (lambda: deb.DHExperimenter.DH1(num_dimensions=2))
  except Exception:  # pylint: disable=broad-except
    pass
  return out


def _dom(pc, small):
  vz = _vz()
  if pc.type == vz.ParameterType.DOUBLE:
    lo, hi = pc.bounds
    return [lo, hi] if small else [lo, (lo + hi) / 2, hi]
  if pc.type == vz.ParameterType.INTEGER:
    lo, hi = pc.bounds
    return sorted({lo, hi})
  return list(pc.feasible_values)[:5]


def _grid_params(pcs, cap):
  """Assignments for a list of sibling parameter configs, descending into the children that are active."""
  if not pcs:
    yield {}
    return
  pc, rest = pcs[0], pcs[1:]
  for v in _dom(pc, small=len(pcs) > cap):
    kids = [c for c in pc.child_parameter_configs if v in c.matching_parent_values]
    for sub in _grid_params(kids, cap):
      for tail in _grid_params(rest, cap):
        d = {pc.name: v}
        d.update(sub)
        d.update(tail)
        yield d


def grid(problem, cap=4):
  yield from _grid_params(list(problem.search_space.parameters), cap)


def evaluate(exptr, points, batch=1):
  vz = _vz()
  out = []
  pts = list(points)
  for i in range(0, len(pts), batch):
    ts = [vz.Trial(parameters=p) for p in pts[i:i + batch]]
    before = [copy.deepcopy(t.parameters.as_dict()) for t in ts]
    exptr.evaluate(ts)
    for t, b in zip(ts, before):
      out.append((t, b))
  return out


def metrics_of(t):
  if t.infeasible or t.final_measurement is None:
    return None
  return {k: v.value for k, v in t.final_measurement.metrics.items()}


def close(a, b):
  if a is None or b is None:
    return a is b
  if a.keys() != b.keys():
    return False
  return all(math.isclose(a[k], b[k], rel_tol=1e-9, abs_tol=1e-9) or (math.isnan(a[k]) and math.isnan(b[k])) for k in a)


# ---- generic oracles ------------------------------------------------------------------------------
def generic(name, mk, vios, stats, deterministic=True, batches=(1, 3)):
  vz = _vz()

  def V(clause, text):
    kind = name.split('(')[0].split(':')[0]
    sig = 'C20|%s|%s' % (clause, kind)
    vios.setdefault(sig, {'sig': sig, 'desc': '%s: %s' % (name, text), 'case': {'experimenter': name}})
  try:
    e = mk()
  except Exception as ex:  # pylint: disable=broad-except
    stats['refused'] += 1
    return None
  ps = e.problem_statement()
  # by value
  snap = repr(ps)
  try:
    ps.metric_information.append(vz.MetricInformation('injected', goal=vz.ObjectiveMetricGoal.MAXIMIZE))
    ps.search_space.root.add_float_param('injected_param', 0.0, 1.0)
    ps.metadata['injected'] = 'x'
  except Exception:  # pylint: disable=broad-except
    pass
  again = e.problem_statement()
  if repr(again) != snap:
    V('problem-statement-by-reference', 'mutating the returned problem statement changes what the next call returns')
    e = mk()  # fresh one for the remaining checks
  ps = e.problem_statement()
  names = [m.name for m in ps.metric_information]
  pts = list(grid(ps))
  res = {}
  for batch in batches:
    ex = mk() if not deterministic else e
    try:
      r = evaluate(ex, pts, batch)
    except Exception as exn:  # pylint: disable=broad-except
      V('evaluate-raises', 'evaluate raises %r on a grid point of its own search space' % (exn,))
      return None
    stats['evaluations'] += len(r)
    for (t, before), p in zip(r, pts):
      if t.parameters.as_dict() != before:
        V('parameters-changed', 'parameters %r came back as %r' % (before, t.parameters.as_dict()))
      if not t.is_completed:
        V('trial-not-completed', 'trial at %r was neither completed nor marked infeasible' % (p,))
      elif not t.infeasible:
        m = metrics_of(t) or {}
        missing = [n for n in names if n not in m]
        if missing:
          V('metrics-missing', 'trial at %r lacks metrics %s (has %s)' % (p, missing, sorted(m)))
    res[batch] = [metrics_of(t) for t, _ in r]
  if deterministic and len(batches) > 1:
    a, b = res[batches[0]], res[batches[1]]
    for p, x, y in zip(pts, a, b):
      if not close(x, y):
        V('batch-dependence', 'metrics at %r differ between batch sizes: %s vs %s' % (p, x, y))
        break
  # parameters are named: the order in which a trial's parameter dict was filled must not matter
  if deterministic:
    for oname, f in (('reversed', lambda p: dict(reversed(list(p.items())))), ('name-sorted', lambda p: dict(sorted(p.items())))):
      if all(list(f(p)) == list(p) for p in pts):
        continue
      try:
        r = evaluate(e, [f(p) for p in pts], batches[0])
      except Exception as exn:  # pylint: disable=broad-except
        V('evaluate-raises', 'evaluate raises %r on a grid point whose parameters are given in %s order' % (exn, oname))
        break
      stats['evaluations'] += len(r)
      for p, x, (t, _) in zip(pts, res[batches[0]], r):
        if not close(x, metrics_of(t)):
          V('parameter-order-dependence', 'metrics at %r differ when the same parameters are given in %s order: %s vs %s' % (p, oname, x, metrics_of(t)))
          break
  stats['nontrivial'] += 1
  return e, ps, pts, res[batches[0]]


# ---- wrapper relations ---------------------------------------------------------------------------
def wrappers(inner_name, mk_inner, quick):
  """Yields (name, mk_wrapper, relation(checker)) for one inner experimenter factory."""
  vz = _vz()
  from vizier._src.benchmarks.experimenters import (discretizing_experimenter, infeasible_experimenter, multiobjective_experimenter,
                                                    noisy_experimenter, normalizing_experimenter, permuting_experimenter,
                                                    shifting_experimenter, sign_flip_experimenter, sparse_experimenter, switch_experimenter)
  inner_ps = mk_inner().problem_statement()
  params = inner_ps.search_space.parameters
  objective = [m.name for m in inner_ps.metric_information]

  def inner_at(point):
    t = vz.Trial(parameters=point)
    mk_inner().evaluate([t])
    return metrics_of(t), t

  out = []
  # shifting ("currently only supports flat double search spaces")
  all_double = all(pc.type == vz.ParameterType.DOUBLE for pc in params)
  mixed = [(0.5 if i % 2 == 0 else -0.25) for i in range(len(params))]
  for shift, restrict in ([(0.5, True), (-0.25, True), (mixed, True), ([-x for x in mixed], True), (0.0, False)] if all_double else []):
    def rel(point, got, t, shift=shift, restrict=restrict):
      mapped = {}
      for i, pc in enumerate(params):
        v = point[pc.name] - (shift[i] if isinstance(shift, list) else shift)
        lo, hi = pc.bounds
        if restrict:
          # the restricted search space is exactly the set of points whose shifted image lies in the inner space
          if not (lo - 1e-9 * max(1.0, abs(lo)) <= v <= hi + 1e-9 * max(1.0, abs(hi))):
            return 'point %r of the restricted search space maps to %s=%r, outside the inner range [%r, %r]' % (point, pc.name, v, lo, hi)
          v = min(max(v, lo), hi)
        mapped[pc.name] = v
      if not restrict and any(not (pc.bounds[0] <= mapped[pc.name] <= pc.bounds[1]) for pc in params):
        return None   # outside the inner space: behaviour not specified
      want, _ = inner_at(mapped)
      return None if close(got, want) else 'shifted point %r: got %s, inner at x - shift gives %s' % (point, got, want)
    if restrict:
      def rel(point, got, t, shift=shift, inner_rel=rel, memo={}):
        # the restricted search space must be exactly the inner range moved by the shift and cut to the inner range
        if 'space' not in memo:
          memo['space'] = None
          w = shifting_experimenter.ShiftingExperimenter(mk_inner(), np.asarray(shift, dtype=float) if isinstance(shift, list) else np.asarray(shift), should_restrict=True)
          for i, pc in enumerate(params):
            sft = shift[i] if isinstance(shift, list) else shift
            wb = w.problem_statement().search_space.get(pc.name).bounds
            want_b = (pc.bounds[0] + max(sft, 0.0), pc.bounds[1] + min(sft, 0.0))
            if not all(math.isclose(a, b, rel_tol=1e-12, abs_tol=1e-12) for a, b in zip(wb, want_b)):
              memo['space'] = 'restricted range of %s is %r, expected %r (inner range %r, shift %r)' % (pc.name, wb, want_b, pc.bounds, sft)
        return memo['space'] or inner_rel(point, got, t)
    out.append(('shifting(%s,%s)' % (shift, restrict), lambda shift=shift, restrict=restrict: shifting_experimenter.ShiftingExperimenter(mk_inner(), np.asarray(shift, dtype=float) if isinstance(shift, list) else np.asarray(shift), should_restrict=restrict), rel, True))

  # sign flip (and involution)
  def rel_flip(point, got, t):
    want, _ = inner_at(point)
    if want is None or got is None:
      return None if want is got else 'feasibility differs'
    for k in objective:
      if not math.isclose(got[k], -want[k], rel_tol=1e-12, abs_tol=1e-12):
        return 'objective %s at %r: got %s, inner gives %s' % (k, point, got[k], want[k])
    return None
  out.append(('signflip', lambda: sign_flip_experimenter.SignFlipExperimenter(mk_inner()), rel_flip, True))

  def rel_flip2(point, got, t):
    want, _ = inner_at(point)
    return None if close({k: got[k] for k in objective} if got else None, {k: want[k] for k in objective} if want else None) else 'sign flip twice is not the identity at %r: %s vs %s' % (point, got, want)
  out.append(('signflip2', lambda: sign_flip_experimenter.SignFlipExperimenter(sign_flip_experimenter.SignFlipExperimenter(mk_inner())), rel_flip2, True))

  # discretizing
  dbl = [pc for pc in params if pc.type == vz.ParameterType.DOUBLE]
  if dbl:
    pc0 = dbl[0]
    lo, hi = pc0.bounds
    for vals in ([lo, (lo + hi) / 2, hi], [hi]):
      def rel_d(point, got, t):
        want, _ = inner_at({k: (float(v) if k == pc0.name else v) for k, v in point.items()})
        return None if close(got, want) else 'discretised point %r: got %s, inner gives %s' % (point, got, want)
      out.append(('discretizing(%d)' % len(vals), lambda vals=vals: discretizing_experimenter.DiscretizingExperimenter(mk_inner(), {pc0.name: vals}), rel_d, True))
    out.append(('discretizing-grid', lambda: discretizing_experimenter.DiscretizingExperimenter.create_with_grid(mk_inner(), {pc0.name: 3}), rel_d, True))

  # permuting: a bijection of feasible values => the multiset of objective values over the whole finite subspace is preserved
  fin = [pc for pc in params if pc.type in (vz.ParameterType.DISCRETE, vz.ParameterType.CATEGORICAL)]
  if fin:
    for seed in (0, 1):
      out.append(('permuting(seed=%d)' % seed, lambda seed=seed: permuting_experimenter.PermutingExperimenter(mk_inner(), [pc.name for pc in fin], seed=seed), 'multiset', True))

  # normalizing: order preserving
  out.append(('normalizing', lambda: normalizing_experimenter.NormalizingExperimenter(mk_inner(), num_normalization_samples=10), 'order', True))

  # hypercube: evaluates the inner objective at the un-scaled point; a numeric parameter with finitely many values gets the one
  # nearest to the un-scaled coordinate (points exactly half way between two values are not judged)
  numeric = (vz.ParameterType.DOUBLE, vz.ParameterType.INTEGER, vz.ParameterType.DISCRETE)
  if not inner_ps.search_space.is_conditional and all(pc.type in numeric and pc.scale_type in (None, vz.ScaleType.LINEAR) for pc in params):
    def rel_h(point, got, t):
      mapped = {}
      for i, pc in enumerate(params):
        h = point['h%d' % i]
        if pc.type == vz.ParameterType.DOUBLE:
          mapped[pc.name] = pc.bounds[0] + h * (pc.bounds[1] - pc.bounds[0])
          continue
        vals = list(range(pc.bounds[0], pc.bounds[1] + 1)) if pc.type == vz.ParameterType.INTEGER else sorted(pc.feasible_values)
        x = vals[0] + h * (vals[-1] - vals[0])
        d = sorted((abs(v - x), v) for v in vals)
        if len(d) > 1 and math.isclose(d[0][0], d[1][0], rel_tol=1e-9, abs_tol=1e-9):
          return None
        mapped[pc.name] = d[0][1]
      want, wt = inner_at(mapped)
      if wt.infeasible != t.infeasible:
        return 'inner marks the point %r infeasible=%s, wrapper reports infeasible=%s' % (mapped, wt.infeasible, t.infeasible)
      return None if close(got, want) else 'hypercube point %r -> %r: got %s, inner gives %s' % (point, mapped, got, want)
    out.append(('hypercube', lambda: normalizing_experimenter.HyperCubeExperimenter(mk_inner()), rel_h, True))

  # sparse
  def rel_s(point, got, t):
    want, _ = inner_at({k: v for k, v in point.items() if not k.startswith('_SPARSE')})
    return None if close(got, want) else 'sparse point %r: got %s, inner gives %s' % (point, got, want)
  out.append(('sparse', lambda: sparse_experimenter.SparseExperimenter.create(mk_inner(), float_count=1, int_count=0, discrete_count=1, categorical_count=0), rel_s, True))

  # infeasible wrappers
  def rel_i(point, got, t):
    if t.infeasible:
      return None
    want, _ = inner_at(point)
    return None if close(got, want) else 'feasible point %r: got %s, inner gives %s' % (point, got, want)
  out.append(('hashing-infeasible', lambda: infeasible_experimenter.HashingInfeasibleExperimenter(mk_inner(), infeasible_prob=0.5, seed=1), rel_i, True))
  num = [pc for pc in params if pc.type != vz.ParameterType.CATEGORICAL]
  if num:
    def rel_region(point, got, t, pc=num[0]):
      # independent statement of the documented rule: infeasible iff the parameter lies in the lower half of its (linear) range
      if pc.scale_type in (None, vz.ScaleType.LINEAR):
        vals = pc.bounds if pc.type in (vz.ParameterType.DOUBLE, vz.ParameterType.INTEGER) else (min(pc.feasible_values), max(pc.feasible_values))
        if vals[1] > vals[0]:
          pos = (float(point[pc.name]) - vals[0]) / (vals[1] - vals[0])
          inner_infeasible = False if pos < 0.5 else inner_at(point)[1].infeasible
          if abs(pos - 0.5) > 1e-4 and t.infeasible != (pos < 0.5 or inner_infeasible):
            return 'point %r: %s at relative position %.4f of its range is reported infeasible=%s (infeasible interval [0, 0.5])' % (point, pc.name, pos, t.infeasible)
      return rel_i(point, got, t)
    out.append(('region-infeasible', lambda: infeasible_experimenter.ParamRegionInfeasibleExperimenter(mk_inner(), num[0].name, infeasible_interval=(0.0, 0.5)), rel_region, True))

  if len(objective) == 1 and 'switch' not in [pc.name for pc in params]:     # (a switch over a switch would declare 'switch' twice)
    # switch between two copies
    def rel_sw(point, got, t):
      inner_point = {k: v for k, v in point.items() if k != 'switch'}
      want, _ = inner_at(inner_point)
      if (got is None) != (want is None):
        # the wrapper hands the selected experimenter the whole trial, switch parameter included; an experimenter whose
        # verdict depends on every parameter it is given (hashing) may legitimately answer for that trial
        want, _ = inner_at(point)
      if got is None or want is None:
        return None if got is want else 'feasibility differs'
      return None if math.isclose(got['switch_metric'], want[objective[0]], rel_tol=1e-12, abs_tol=1e-12) else 'switch point %r: got %s, inner gives %s' % (point, got, want)
    out.append(('switch', lambda: switch_experimenter.SwitchExperimenter([mk_inner(), mk_inner()]), rel_sw, True))

    # multi-objective combination of the inner with its sign-flipped copy
    def rel_mo(point, got, t):
      want, _ = inner_at(point)
      if got is None or want is None:
        return None if got is want else 'feasibility differs'
      ok = math.isclose(got['a'], want[objective[0]], rel_tol=1e-12, abs_tol=1e-12) and math.isclose(got['b'], -want[objective[0]], rel_tol=1e-12, abs_tol=1e-12)
      return None if ok else 'multi-objective point %r: got %s, inner gives %s' % (point, got, want)
    out.append(('multiobjective', lambda: multiobjective_experimenter.MultiObjectiveExperimenter({'a': mk_inner(), 'b': sign_flip_experimenter.SignFlipExperimenter(mk_inner())}), rel_mo, True))

    # noise with a seed is reproducible; *_before_noise is the inner value
    for noise in (('SEVERE_GAUSSIAN', 'MODERATE_UNIFORM', 'SEVERE_ADDITIVE_GAUSSIAN', 'MODERATE_SELDOM_CAUCHY') if not quick else ('SEVERE_GAUSSIAN', 'SEVERE_ADDITIVE_GAUSSIAN')):
      def rel_n(point, got, t):
        want, _ = inner_at(point)
        if got is None or want is None:
          return None if got is want else 'feasibility differs'
        k = objective[0]
        return None if math.isclose(got[k + '_before_noise'], want[k], rel_tol=1e-12, abs_tol=1e-12) else 'noise wrapper hides a different base value at %r' % (point,)
      out.append(('noisy(%s)' % noise, lambda noise=noise: noisy_experimenter.NoisyExperimenter.from_type(mk_inner(), noise, seed=7), rel_n, False))
  return out


def check_wrapper(wname, mk_w, rel, deterministic, inner_name, mk_inner, vios, stats):
  full = '%s(%s)' % (wname, inner_name)
  g = generic(full, mk_w, vios, stats, deterministic=deterministic, batches=(1, 3) if deterministic else (3,))
  if g is None:
    return
  e, ps, pts, ms = g
  kind = wname.split('(')[0]

  def V(clause, text):
    sig = 'C20|%s|%s' % (clause, kind)
    vios.setdefault(sig, {'sig': sig, 'desc': '%s: %s' % (full, text), 'case': {'experimenter': full}})
  r = evaluate(mk_w(), pts, 1)
  if callable(rel):
    for (t, _), p in zip(r, pts):
      try:
        why = rel(p, metrics_of(t), t)
      except Exception as ex:  # pylint: disable=broad-except
        why = 'relation could not be evaluated: %r' % ex
      if why:
        V('relation', why)
        break
  elif rel == 'multiset':
    inner = evaluate(mk_inner(), pts, 1)
    names = [m.name for m in ps.metric_information]
    a = sorted(round(metrics_of(t)[names[0]], 9) for t, _ in r if metrics_of(t))
    b = sorted(round(metrics_of(t)[names[0]], 9) for t, _ in inner if metrics_of(t))
    # only sound when the grid covers the whole finite subspace and continuous coordinates are on the grid in both
    if a != b:
      V('relation', 'objective values over the whole grid are not a permutation of the inner ones')
  elif rel == 'order':
    inner = evaluate(mk_inner(), pts, 1)
    names = [m.name for m in ps.metric_information]
    for nm in names:
      xs = [(metrics_of(t) or {}).get(nm) for t, _ in r]
      ys = [(metrics_of(t) or {}).get(nm) for t, _ in inner]
      for i in range(len(pts)):
        for j in range(len(pts)):
          if xs[i] is None or ys[i] is None or xs[j] is None or ys[j] is None:
            continue
          if ys[i] < ys[j] and not xs[i] <= xs[j]:
            V('relation', 'normalising reverses the order of %r and %r (%s)' % (pts[i], pts[j], nm))
            return
  if not deterministic:
    r2 = evaluate(mk_w(), pts, 3)
    r3 = evaluate(mk_w(), pts, 3)
    if any(not close(metrics_of(a[0]), metrics_of(b[0])) for a, b in zip(r2, r3)):
      V('seeded-noise-not-reproducible', 'two wrappers built with the same seed give different values on the same trial sequence')


def shard(task):
  quick = task['quick']
  bs = bases(quick)
  vios, stats = {}, {'evaluations': 0, 'nontrivial': 0, 'refused': 0}
  for bname in task['bases']:
    mk = bs[bname]
    if generic(bname, mk, vios, stats) is None:
      continue
    level1 = wrappers(bname, mk, quick)
    for wname, mk_w, rel, det in level1:
      check_wrapper(wname, mk_w, rel, det, bname, mk, vios, stats)
    if task['depth'] >= 2:
      for wname, mk_w, rel, det in level1:
        if not det or wname.startswith(('signflip2', 'noisy')):
          continue
        try:
          mk_w()
        except Exception:  # pylint: disable=broad-except
          continue
        inner_name = '%s(%s)' % (wname, bname)
        for w2, mk_w2, rel2, det2 in wrappers(inner_name, mk_w, True):
          if task['depth2_filter'] and w2.split('(')[0] not in task['depth2_filter']:
            continue
          check_wrapper(w2, mk_w2, rel2, det2, inner_name, mk_w, vios, stats)
  return {'stats': stats, 'violations': list(vios.values())}


def reference_shard(task):
  """BBOB problems against the function definitions themselves, in dimensions 2, 5 and 12 (twelve parameters x0..x11: the
  name order differs from the declaration order), on asymmetric points; and the restricting shift wrapper with a different
  shift per coordinate, against the base function at x - shift."""
  vz = _vz()
  from vizier._src.benchmarks.experimenters import numpy_experimenter as ne, shifting_experimenter
  from vizier._src.benchmarks.experimenters.synthetic import bbob
  vios, n = {}, 0
  for fn in task['fns']:
    f = getattr(bbob, fn)
    for dim in (2, 5, 12):
      def mk(dim=dim):
        return ne.NumpyExperimenter(f, bbob.DefaultBBOBProblemStatement(dim))
      ps = mk().problem_statement()
      names = [pc.name for pc in ps.search_space.parameters]
      pts = [np.array([-4.0 + 0.7 * i for i in range(dim)]), np.array([4.5 - 0.6 * i for i in range(dim)]),
             np.array([(-1.0) ** i * (0.5 + 0.3 * i) for i in range(dim)]), np.zeros(dim), np.array([1.0 if i == dim - 1 else 0.0 for i in range(dim)]) * 3.0]
      metric = ps.metric_information.item().name
      for x in pts:
        n += 1
        try:
          want = float(np.asarray(f(x.copy())).reshape(-1)[0])     # some definitions reshape their argument in place
        except Exception:  # pylint: disable=broad-except
          continue
        for order in ('declared', 'reversed'):
          items = list(zip(names, x.tolist()))
          t = vz.Trial(parameters=dict(items if order == 'declared' else items[::-1]))
          mk().evaluate([t])
          got = metrics_of(t)
          if got is None or not (math.isclose(got[metric], want, rel_tol=1e-9, abs_tol=1e-9) or (math.isnan(got[metric]) and math.isnan(want))):
            sig = 'C20|base-value-differs-from-definition|bbob'
            vios.setdefault(sig, {'sig': sig, 'desc': 'bbob %s dim %d at %s (parameters given in %s order): the experimenter reports %s, the function itself gives %r' % (fn, dim, x.tolist(), order, got, want),
                                  'case': {'experimenter': 'bbob:%s:%d' % (fn, dim)}})
        # shift wrapper with a different shift per coordinate (restricted space: x - shift lies in the base space)
        shift = np.array([0.25 * ((i % 3) - 1) + 0.05 * i for i in range(dim)])
        xs = np.clip(x, -5.0 + np.maximum(shift, 0), 5.0 + np.minimum(shift, 0))
        try:
          w = shifting_experimenter.ShiftingExperimenter(mk(), shift, should_restrict=True)
          t = vz.Trial(parameters=dict(zip(names, xs.tolist())))
          w.evaluate([t])
          got = metrics_of(t)
          want = float(np.asarray(f((xs - shift).copy())).reshape(-1)[0])
          if got is None or not (math.isclose(got[metric], want, rel_tol=1e-7, abs_tol=1e-7) or (math.isnan(got[metric]) and math.isnan(want))):
            sig = 'C20|relation|shifting-per-coordinate'
            vios.setdefault(sig, {'sig': sig, 'desc': 'shifting(%s) over bbob %s dim %d at %s: the wrapper reports %s, the function at x - shift gives %r' % (shift.tolist(), fn, dim, xs.tolist(), got, want),
                                  'case': {'experimenter': 'bbob:%s:%d' % (fn, dim)}})
        except Exception as e:  # pylint: disable=broad-except
          sig = 'C20|evaluate-raises|shifting-per-coordinate'
          vios.setdefault(sig, {'sig': sig, 'desc': 'shifting(%s) over bbob %s dim %d raises %r' % (shift.tolist(), fn, dim, e), 'case': {'experimenter': 'bbob:%s:%d' % (fn, dim)}})
  return {'n': n, 'violations': list(vios.values())}


def seeded_values(quick=True):
  """Values of every seeded (pseudo-random but reproducible) experimenter on a few points: what a fresh interpreter must give
  again, whatever its string-hash salt."""
  vz = _vz()
  from vizier._src.benchmarks.experimenters import infeasible_experimenter, noisy_experimenter, normalizing_experimenter, permuting_experimenter
  bs = bases(True)
  out = {}
  for bname in ('bbob:Sphere:2', 'branin', 'simplekd:corner:True'):
    mk = bs[bname]
    pts = list(grid(mk().problem_statement(), cap=3))[:12]
    stacks = {}
    for noise in ('SEVERE_GAUSSIAN', 'MODERATE_UNIFORM', 'SEVERE_ADDITIVE_GAUSSIAN', 'MODERATE_SELDOM_CAUCHY', 'LIGHT_ADDITIVE_UNIFORM'):
      for sd in (0, 7):
        stacks['noisy(%s,seed=%d)' % (noise, sd)] = lambda noise=noise, sd=sd: noisy_experimenter.NoisyExperimenter.from_type(mk(), noise, seed=sd)
    stacks['hashing-infeasible(seed=1)'] = lambda: infeasible_experimenter.HashingInfeasibleExperimenter(mk(), infeasible_prob=0.5, seed=1)
    stacks['normalizing'] = lambda: normalizing_experimenter.NormalizingExperimenter(mk(), num_normalization_samples=10)
    fin = [pc.name for pc in mk().problem_statement().search_space.parameters if pc.type in (vz.ParameterType.DISCRETE, vz.ParameterType.CATEGORICAL)]
    if fin:
      stacks['permuting(seed=3)'] = lambda: permuting_experimenter.PermutingExperimenter(mk(), fin, seed=3)
    for sname, mk_s in stacks.items():
      try:
        r = evaluate(mk_s(), pts, 2)
        out['%s(%s)' % (sname, bname)] = [None if metrics_of(t) is None else sorted((k, repr(v)) for k, v in metrics_of(t).items()) for t, _ in r]
      except Exception as e:  # pylint: disable=broad-except
        out['%s(%s)' % (sname, bname)] = 'ERR:' + type(e).__name__
  return out


def child(task):
  """One fresh interpreter with the given PYTHONHASHSEED."""
  import json
  import os
  import subprocess
  import sys
  env = dict(os.environ)
  env['PYTHONHASHSEED'] = str(task['hashseed'])
  verif = os.path.dirname(os.path.dirname(os.path.abspath(__file__)))
  code = 'import json,sys; from vfw import boot; boot.boot(); from props import c20; sys.stdout.write("\\n@@RESULT@@" + json.dumps(c20.seeded_values()) + "\\n")'
  p = subprocess.run([sys.executable, '-c', code], cwd=verif, env=env, capture_output=True, text=True, timeout=1500)
  for line in p.stdout.splitlines():
    if line.startswith('@@RESULT@@'):
      return {'hashseed': task['hashseed'], 'result': json.loads(line[len('@@RESULT@@'):])}
  return {'hashseed': task['hashseed'], 'result': None, 'stderr': p.stderr[-600:]}


def run(ctx):
  names = list(bases(ctx.quick))
  tasks = []
  if ctx.quick:
    deep = ['bbob:Sphere:2', 'bbob:Rastrigin:2', 'branin', 'simplekd:corner:True', 'hartmann3', 'zdt:ZDT1']
    for n in names:
      tasks.append({'bases': [n], 'quick': True, 'depth': 2 if n in deep else 1, 'depth2_filter': ['shifting', 'signflip', 'hypercube', 'discretizing', 'permuting', 'sparse', 'region-infeasible', 'normalizing'] + (['switch', 'multiobjective'] if n == deep[0] else [])})
  else:
    for n in names:
      tasks.append({'bases': [n], 'quick': False, 'depth': 2, 'depth2_filter': None})
  tot = {'evaluations': 0, 'nontrivial': 0, 'refused': 0}
  for r in ctx.pmap('shard', tasks):
    for k in tot:
      tot[k] += r['stats'][k]
    ctx.extend(r['violations'])
  fns = ['Sphere', 'Rastrigin', 'BuecheRastrigin', 'LinearSlope', 'AttractiveSector', 'StepEllipsoidal', 'RosenbrockRotated', 'Ellipsoidal', 'Discus',
         'BentCigar', 'SharpRidge', 'DifferentPowers', 'Weierstrass', 'SchaffersF7', 'SchaffersF7IllConditioned', 'GriewankRosenbrock', 'Schwefel', 'Katsuura',
         'Lunacek', 'Gallagher101Me', 'Gallagher21Me', 'NegativeSphere', 'NegativeMinDifference', 'FonsecaFleming']
  for r in ctx.pmap('reference_shard', [{'fns': fns[i::8]} for i in range(8)]):
    tot['evaluations'] += 3 * r['n']
    ctx.extend(r['violations'])
  # seeded experimenters in fresh interpreters with different string-hash salts
  kids = list(ctx.pmap('child', [{'hashseed': h} for h in ((0, 1, 4242) if ctx.quick else (0, 1, 2, 4242, 987654321))]))
  if kids[0]['result'] is None:
    from vfw.runner import HarnessError
    raise HarnessError('seeded-values child failed: %s' % kids[0].get('stderr'))
  for k in kids[1:]:
    if k['result'] is None:
      ctx.violation('C20|fresh-process-fails|hashseed', 'the seeded-values run with PYTHONHASHSEED=%s failed: %s' % (k['hashseed'], k.get('stderr')), {'experimenter': 'seeded'})
      continue
    for stack, vals in kids[0]['result'].items():
      tot['evaluations'] += len(vals) if isinstance(vals, list) else 0
      if k['result'].get(stack) != vals:
        ctx.violation('C20|seeded-not-reproducible-across-processes|%s' % stack.split('(')[0], '%s: with the same seed a fresh interpreter (PYTHONHASHSEED=%s) gives %s, another (PYTHONHASHSEED=0) gave %s' % (
            stack, k['hashseed'], str(k['result'].get(stack))[:200], str(vals)[:200]), {'experimenter': 'seeded'})
  return {'evaluations': tot['evaluations'], 'distinct_nontrivial': tot['nontrivial'], 'fresh_interpreters': len(kids), 'seeded_stacks': len(kids[0]['result']),
          'rule': 'evaluations = trials evaluated; distinct_nontrivial = distinct experimenter stacks (base or wrapper(inner)) that were constructed and checked on their whole grid; '
                  'stacks a wrapper refuses to build (e.g. shifting over a non-DOUBLE space) are counted under refused',
          'samples': [{'stack': 'shifting(0.5,True)(signflip(bbob:Sphere:2))', 'points': 9}, {'stack': 'hypercube(region-infeasible(branin))'}],
          'refused_stacks': tot['refused'], 'bases': len(names), 'exhaustive': True}


def replay(case, ctx):
  name = case['experimenter']
  base = name
  while '(' in base and not base.startswith(('bbob', 'branin', 'hartmann', 'simplekd', 'zdt', 'deb')):
    base = base[base.index('(') + 1:-1]
  # strip wrapper arguments such as shifting(0.5,True)(...)
  import re
  m = re.search(r'(bbob:[A-Za-z0-9]+:\d|branin|hartmann\d|simplekd:[a-z]+:(True|False)|zdt:ZDT\d|deb:DH1)', name)
  base = m.group(1) if m else base
  return shard({'bases': [base], 'quick': False, 'depth': 2, 'depth2_filter': None})['violations']
