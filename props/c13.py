"""C13 restart equivalence: for each persisting designer, every batch-size sequence up to the stated length and
every subset of steps at which the designer is dumped, rebuilt and re-loaded (through real metadata -> proto
bytes -> metadata) must behave like the instance kept alive; plus GRID_SEARCH behind the real service with
server restarts (RAM and SQLite)."""
import itertools

import numpy as np

LEVEL = 'fault_enumeration'
ASSUMPTIONS = [
    'a restart = dump() of the running instance right after its suggest (what the designer policy stores), serialised through vz.Metadata -> StudySpec proto bytes -> vz.Metadata, a fresh instance from the same factory arguments, load()',
    'deterministic designers (grid, shuffled grid, quasi-random, eagle with its persisted rng) must give identical suggestions; for randomised evolutionary designers (NSGA-II, CMA-ES), whose random stream is not part of the state, the restored instance is compared with the dumped one right after load(): population, phase counter, queued trials, serialised state',
    'objective feedback is a fixed function of the suggested parameters; the completed trials of a step are fed back in suggestion order and in reversed order',
    'besides all short sequences, long sequences (7-12 steps, past the first phase of eagle / NSGA-II) are run with a restart at each single position, at every position and at every other position',
]


def _spaces():
  from props import c03
  return c03


def designer_factories():
  from vizier._src.algorithms.designers import grid, quasi_random
  out = {
      'grid': (lambda p, seed: grid.GridSearchDesigner(p.search_space), 'identical', [('i-22', 'c2'), ('d01',), ('x2', 'bool'), ('dlog', 'i00')]),
      'shuffled_grid': (lambda p, seed: grid.GridSearchDesigner(p.search_space, shuffle_seed=seed), 'identical', [('i-22', 'c2'), ('d01', 'x2')]),
      'quasi_random': (lambda p, seed: quasi_random.QuasiRandomDesigner(p.search_space, seed=seed), 'identical', [('d01', 'c5'), ('dlog', 'i015'), ('x12',)]),
  }

  def eagle(p, seed):
    from vizier._src.algorithms.designers.eagle_strategy import eagle_strategy
    return eagle_strategy.EagleStrategyDesigner(p, seed=seed)
  out['eagle'] = (eagle, 'identical', [('d01', 'd-55'), ('dlog', 'c5'), ('i-22', 'x2')])

  def nsga(p, seed):
    from vizier._src.algorithms.evolution import nsga2
    return nsga2.NSGA2Designer(p, population_size=4, first_survival_after=4, seed=seed)
  out['nsga2'] = (nsga, 'state', [('d01', 'd-55'), ('d01', 'c5')])

  def cma(p, seed):
    from vizier._src.algorithms.designers import cmaes
    return cmaes.CMAESDesigner(p, seed=seed)
  out['cmaes'] = (cma, 'state', [('d01', 'd-55')])
  return out


def through_wire(md):
  """vz.Metadata -> StudySpec proto -> bytes -> StudySpec -> vz.Metadata (what the service stores)."""
  from vizier.service import pyvizier as svz
  from vizier import pyvizier as vz
  from vizier._src.service import study_pb2
  sc = svz.StudyConfig()
  sc.search_space.root.add_float_param('x', 0.0, 1.0)
  sc.metric_information.append(vz.MetricInformation('m', goal=vz.ObjectiveMetricGoal.MAXIMIZE))
  sc.metadata.ns('designer').attach(md)
  data = sc.to_proto().SerializeToString()
  back = svz.StudyConfig.from_proto(study_pb2.StudySpec.FromString(data))
  return back.metadata.ns('designer')


def objective(params, nm):
  h = 0.0
  for k, v in sorted(params.as_dict().items()):
    h += (float(v) if not isinstance(v, str) else float(sum(map(ord, v)) % 7)) * (1 + len(k))
  return [((h * (j + 1)) % 5.0) - 2.0 for j in range(nm)]


def state_view(name, d):
  """What must be equal for randomised designers."""
  if name == 'nsga2':
    pop = d.population
    return {'num_trials_seen': d._num_trials_seen, 'phase': 'mutation' if d._num_trials_seen >= d._first_survival_after else 'sampling',
            'population_size': len(pop), 'population_ys': np.asarray(pop.ys).round(9).tolist() if len(pop) else [],
            'population_ids': sorted(np.asarray(pop.trial_ids).tolist()) if len(pop) else [],
            'population_ages': sorted(zip(np.asarray(pop.trial_ids).tolist(), np.asarray(pop.ages).tolist())) if len(pop) else []}
  if name == 'cmaes':
    return {'queued_trials': sorted(t.id for t in list(d._trial_population.queue)), 'dump': repr(sorted((str(ns), k, v[:60]) for ns in d.dump().namespaces() for k, v in d.dump().abs_ns(ns).items()))[:4000]}
  return {}


def run_sequence(name, mk, mode, prob, seed, batches, restarts, order='in', ctor_seed=None):
  """Returns (suggestions per step, final state view) with restarts before the steps in `restarts`."""
  from vizier import algorithms as vza
  from vizier import pyvizier as vz
  d = mk(prob, seed)
  nm = len(prob.metric_information)
  tid = 0
  out = []
  pending = []
  held = []
  md = None
  load_diffs = []
  for step, b in enumerate(batches):
    if step in restarts and md is not None:
      before = state_view(name, d)
      d = mk(prob, seed if ctor_seed is None else ctor_seed)   # the new instance; what it was constructed with must not matter after load()
      d.load(through_wire(md))
      after = state_view(name, d)
      if before != after:
        load_diffs.append((step, {k: (before[k], after.get(k)) for k in before if before[k] != after.get(k)}))
    # completions may reach the designer in any order, and some updates carry no completed trial at all
    if order == 'bursty':
      held = held + pending
      fed, held = (held, []) if step % 2 == 0 else ([], held)
    else:
      fed = list(reversed(pending)) if order == 'reversed' else pending
    d.update(vza.CompletedTrials(fed), vza.ActiveTrials([]))
    sugg = list(d.suggest(b))
    out.append([s.parameters.as_dict() for s in sugg])
    md = d.dump()
    pending = []
    for s in sugg:
      tid += 1
      t = s.to_trial(tid)
      vals = list(objective(s.parameters, nm))
      if name == 'nsga2' and tid % 5 == 2:
        vals[-1] = float('-inf')        # a diverged run: an infinite objective value stays in the population for a while
      t.complete(vz.Measurement({m.name: v for m, v in zip(prob.metric_information, vals)}))
      pending.append(t)
  return out, load_diffs, d


def shard(task):
  c03 = _spaces()
  fs = designer_factories()
  name = task['designer']
  mk, mode, _ = fs[name]
  vios, n, nontriv, refused = {}, 0, 0, 0
  for keys in task['spaces']:
    goals = ('MAXIMIZE', 'MINIMIZE') if name == 'nsga2' else ('MAXIMIZE',)
    prob = c03.problem(keys, goals)
    for seed in task['seeds']:
      plans = []
      for L in range(1, task['maxlen'] + 1):
        for batches in itertools.product((1, 2, 3), repeat=L):
          for order in ('in', 'reversed', 'bursty'):
            if order == 'reversed' and max(batches[:-1] or (1,)) == 1:
              continue   # nothing to reorder
            if order == 'bursty' and L < 3:
              continue   # completions held back for one step need three steps to matter
            plans.append((batches, order, [c for r in range(1, L + 1) for c in itertools.combinations(range(1, L), r)]))
      for batches in task.get('long', []):
        L = len(batches)
        for order in ('in', 'reversed', 'bursty'):
          plans.append((tuple(batches), order, [(k,) for k in range(1, L)] + [tuple(range(1, L)), tuple(range(1, L, 2))]))
      for batches, order, restart_sets in plans:
          L = len(batches)
          try:
            base, base_state, _ = run_sequence(name, mk, mode, prob, seed, batches, set(), order)
          except Exception as e:  # pylint: disable=broad-except
            refused += 1
            continue
          # every restart set with a new instance constructed like the first one; single restarts also with a new instance
          # constructed with another seed (the dumped state alone must determine the continuation)
          variants = [(r, None) for r in restart_sets] + [(r, seed + 7919) for r in restart_sets if len(r) == 1]
          failed_plain = set()     # restart sets that already fail with an identically constructed new instance
          for restarts, ctor_seed in variants:
            if ctor_seed is not None and restarts in failed_plain:
              continue             # reported under its plain signature; the other-seed variant adds nothing
            if True:
              n += 1
              nontriv += 1
              try:
                got, got_state, _ = run_sequence(name, mk, mode, prob, seed, batches, set(restarts), order, ctor_seed)
              except Exception as e:  # pylint: disable=broad-except
                sig = 'C13|restart-raises|%s|%s' % (name, type(e).__name__)
                vios.setdefault(sig, {'sig': sig, 'desc': '%s on %s seed %d batches %s restarts %s: %r' % (name, keys, seed, batches, restarts, e),
                                      'case': {'designer': name, 'space': list(keys), 'seed': seed, 'batches': list(batches), 'restarts': list(restarts)}})
                continue
              if ctor_seed is None and ((mode == 'identical' and got != base) or (mode == 'state' and got_state)):
                failed_plain.add(restarts)
              if mode == 'identical' and got != base:
                step = [i for i, (a, b) in enumerate(zip(base, got)) if a != b][0]
                sig = 'C13|suggestions-differ%s|%s' % ('' if ctor_seed is None else ':new-instance-built-with-another-seed', name)
                vios.setdefault(sig, {'sig': sig, 'desc': '%s on %s seed %d batches %s (completions fed %s order) restarts before steps %s%s: step %d suggests %s, the live instance suggested %s'
                                      % (name, keys, seed, batches, order, restarts, '' if ctor_seed is None else ' (new instance constructed with seed %d)' % ctor_seed, step, got[step], base[step]),
                                      'case': {'designer': name, 'space': list(keys), 'seed': seed, 'batches': list(batches), 'restarts': list(restarts)}})
              if mode == 'state' and got_state:
                step, diff = got_state[0]
                fields = sorted(diff)
                sig = 'C13|state-differs-after-load%s|%s|%s' % ('' if ctor_seed is None else ':new-instance-built-with-another-seed', name, '+'.join(fields))
                vios.setdefault(sig, {'sig': sig, 'desc': '%s on %s seed %d batches %s: instance restored before step %d differs from the dumped one: %s' % (
                    name, keys, seed, batches, step, {k: v for k, v in diff.items() if k != 'dump'}),
                    'case': {'designer': name, 'space': list(keys), 'seed': seed, 'batches': list(batches), 'restarts': list(restarts)}})
  return {'n': n, 'nontrivial': nontriv, 'refused': refused, 'violations': list(vios.values())}


def shard_service(task):
  """GRID_SEARCH hosted in the service: every grid point exactly once before repeating, whatever the batches and restarts."""
  from vfw import svc
  from vizier import pyvizier as vz
  from vizier._src.service import policy_factory, study_pb2
  from vizier.service import pyvizier as svz
  import os
  import tempfile
  vios, n, nontriv = {}, 0, 0
  for kind in task['backends']:
    path = os.path.join(tempfile.mkdtemp(prefix='c13-', dir=svc.scratch()), 'v.db') if kind == 'sqlfile' else None
    b = svc.Backend(kind, path=path, fallback_factory=policy_factory.DefaultPolicyFactory())
    empty = b.snapshot() if kind != 'sqlfile' else None
    for algo in task['algos']:
      sc = svz.StudyConfig(algorithm=algo)
      sc.search_space.root.add_int_param('i', 0, 2)
      sc.search_space.root.add_categorical_param('c', ['a', 'b'])
      sc.metric_information.append(vz.MetricInformation('m', goal=vz.ObjectiveMetricGoal.MAXIMIZE))
      grid_size = 6
      k = 0
      for L in range(1, task['maxlen'] + 1):
        for batches in itertools.product((1, 2, 3), repeat=L):
          for r in range(0, L):
            for restarts in itertools.combinations(range(1, L), r):
              n += 1
              nontriv += 1
              k += 1
              name = 'g%d' % k
              st = b.servicer.CreateStudy(svc.vs.CreateStudyRequest(parent=svc.OWNER, study=study_pb2.Study(display_name=name, study_spec=sc.to_proto())))
              seen = []
              for step, cnt in enumerate(batches):
                if step in restarts:
                  b.restart()
                op = b.servicer.SuggestTrials(svc.vs.SuggestTrialsRequest(parent=st.name, client_id='w', suggestion_count=cnt))
                if op.HasField('error') or not op.done:
                  sig = 'C13|service-suggest-fails|%s' % algo
                  vios.setdefault(sig, {'sig': sig, 'desc': '[%s] %s batches %s restarts %s: %s' % (kind, algo, batches, restarts, op.error.message[:200]), 'case': {'service': True}})
                  break
                trials = svc.vs.SuggestTrialsResponse.FromString(op.response.value).trials
                for t in trials:
                  seen.append(tuple(sorted((p.parameter_id, p.value.number_value if p.value.WhichOneof('kind') == 'number_value' else p.value.string_value) for p in t.parameters)))
                  b.servicer.CompleteTrial(svc.vs.CompleteTrialRequest(name=t.name, final_measurement=svc.measurement(1.0)))
              # each grid point once before any repeats: multiplicities differ by at most one
              cnt = {}
              for x in seen:
                cnt[x] = cnt.get(x, 0) + 1
              mult = sorted(cnt.values()) + [0] * (grid_size - len(cnt))
              if len(cnt) > grid_size or (mult and max(mult) - min(mult) > 1):
                sig = 'C13|grid-point-repeated|%s' % algo
                vios.setdefault(sig, {'sig': sig, 'desc': '[%s] %s batches %s restarts before steps %s: suggested %s' % (kind, algo, batches, restarts, seen), 'case': {'service': True, 'batches': list(batches), 'restarts': list(restarts)}})
              b.servicer.DeleteStudy(svc.vs.DeleteStudyRequest(name=st.name))
    b.close()
  return {'n': n, 'nontrivial': nontriv, 'refused': 0, 'violations': list(vios.values())}


def cross_values():
  """Suggestion sequences (kept alive / restored before every step) of the designers whose whole stream is fixed by the seed."""
  c03 = _spaces()
  fs = designer_factories()
  out = {}
  for name, keys in (('grid', ('i-22', 'c2')), ('shuffled_grid', ('i-22', 'c2')), ('shuffled_grid', ('d01', 'x2')), ('quasi_random', ('d01', 'c5')), ('eagle', ('d01', 'c5'))):
    mk, mode, _ = fs[name]
    prob = c03.problem(keys)
    for seed in (1, 7):
      batches = (2, 3, 1, 3)
      for label, restarts in (('alive', set()), ('restored', {1, 2, 3})):
        try:
          got, _, _ = run_sequence(name, mk, mode, prob, seed, batches, restarts)
          out['%s|%s|%d|%s' % (name, '+'.join(keys), seed, label)] = [[sorted((k, repr(v)) for k, v in s.items()) for s in step] for step in got]
        except Exception as e:  # pylint: disable=broad-except
          out['%s|%s|%d|%s' % (name, '+'.join(keys), seed, label)] = 'ERR:' + type(e).__name__
  return out


def cross_child(task):
  """One fresh interpreter with the given PYTHONHASHSEED (a restarted server is another process)."""
  import json
  import os
  import subprocess
  import sys
  env = dict(os.environ)
  env['PYTHONHASHSEED'] = str(task['hashseed'])
  verif = os.path.dirname(os.path.dirname(os.path.abspath(__file__)))
  code = 'import json,sys; from vfw import boot; boot.boot(); from props import c13; sys.stdout.write("\\n@@RESULT@@" + json.dumps(c13.cross_values()) + "\\n")'
  p = subprocess.run([sys.executable, '-c', code], cwd=verif, env=env, capture_output=True, text=True, timeout=1500)
  for line in p.stdout.splitlines():
    if line.startswith('@@RESULT@@'):
      return {'hashseed': task['hashseed'], 'result': json.loads(line[len('@@RESULT@@'):])}
  return {'hashseed': task['hashseed'], 'result': None, 'stderr': p.stderr[-600:]}


def run(ctx):
  q = ctx.quick
  fs = designer_factories()
  tasks = []
  for name, (mk, mode, spaces) in fs.items():
    heavy = name in ('eagle', 'cmaes')
    for sp in spaces[: (2 if q else len(spaces))]:
      tasks.append(('shard', {'designer': name, 'spaces': [sp], 'seeds': [ctx.seed + 1] if q else [ctx.seed + 1, ctx.seed + 2],
                              'maxlen': (3 if heavy else 4) if q else (4 if heavy else 5)}))
    if not heavy:
      # "all seeds": zero, negative and beyond 32 bits (a designer may refuse one at construction, which is tallied, not a violation)
      tasks.append(('shard', {'designer': name, 'spaces': [spaces[0]], 'seeds': [0, -5, 2 ** 40 + 1], 'maxlen': 2 if q else 3}))
  # long runs: past the point where the eagle pool is full / the evolutionary designers have left their first phase
  for name, sp in (('eagle', ('d01', 'd-55', 'c5')), ('eagle', ('d01', 'd-55')), ('nsga2', ('d01', 'd-55')), ('quasi_random', ('d01', 'c5')), ('shuffled_grid', ('i-22', 'c2'))):
    for seed in ([ctx.seed + 1, ctx.seed + 2] if q else [ctx.seed + 1, ctx.seed + 2, ctx.seed + 3]):
      tasks.append(('shard', {'designer': name, 'spaces': [sp], 'seeds': [seed], 'maxlen': 0, 'long': [[3] * 7, [2, 3, 1, 3, 2, 3, 3, 2]] if q else [[3] * 9, [2, 3, 1, 3, 2, 3, 3, 2, 3], [1] * 12]}))
  tasks.append(('shard_service', {'backends': ['ram'], 'algos': ['GRID_SEARCH', 'SHUFFLED_GRID_SEARCH'], 'maxlen': 3 if q else 4}))
  tasks.append(('shard_service', {'backends': ['sqlmem'] if q else ['sqlmem', 'sqlfile'], 'algos': ['GRID_SEARCH'], 'maxlen': 3 if q else 4}))
  tot = nontriv = refused = 0
  by = {}
  for fn, t in tasks:
    by.setdefault(fn, []).append(t)
  for fn, ts in by.items():
    for r in ctx.pmap(fn, ts):
      tot += r['n']
      nontriv += r['nontrivial']
      refused += r['refused']
      ctx.extend(r['violations'])
  # a restarted server is another process: the instance restored in an interpreter with another string-hash salt must continue
  # like the one kept alive in this one
  kids = list(ctx.pmap('cross_child', [{'hashseed': h} for h in (0, 1, 4242)]))
  if kids[0]['result'] is None:
    from vfw.runner import HarnessError
    raise HarnessError('cross-process child failed: %s' % kids[0].get('stderr'))
  ref = kids[0]['result']
  for k in kids[1:]:
    if k['result'] is None:
      ctx.violation('C13|cross-process-run-fails', 'run with PYTHONHASHSEED=%s failed: %s' % (k['hashseed'], k.get('stderr')), {'cross': True})
      continue
    for key, val in ref.items():
      if not key.endswith('|alive') or isinstance(val, str):
        continue
      tot += 1
      nontriv += 1
      other = k['result'].get(key.replace('|alive', '|restored'))
      if other != val:
        name = key.split('|')[0]
        ctx.violation('C13|suggestions-differ:restored-in-another-process|%s' % name,
                      '%s: the instance restored before every step in an interpreter with PYTHONHASHSEED=%s suggests %s, the one kept alive (PYTHONHASHSEED=0) %s' % (key, k['hashseed'], str(other)[:240], str(val)[:240]), {'cross': True})
  return {'evaluations': tot, 'distinct_nontrivial': nontriv,
          'rule': 'one evaluation = one (designer, space, seed, batch-size sequence, non-empty subset of restart positions) run compared step by step with the run of the instance kept alive; all distinct by construction, '
                  'all contain at least one dump -> wire -> fresh instance -> load',
          'samples': [{'designer': 'nsga2', 'space': ['d01', 'd-55'], 'batches': [3, 2, 1, 3], 'restart_before_steps': [1, 3]}, {'service': 'GRID_SEARCH', 'batches': [2, 3, 1], 'server_restart_before_steps': [2]}],
          'sequences_refused_by_the_designer': refused, 'exhaustive': True}


def replay(case, ctx):
  if case.get('cross'):
    ref, oth = cross_child({'hashseed': 0})['result'], cross_child({'hashseed': 1})['result']
    out = []
    for key, val in (ref or {}).items():
      if key.endswith('|alive') and not isinstance(val, str) and (oth or {}).get(key.replace('|alive', '|restored')) != val:
        out.append({'sig': 'C13|suggestions-differ:restored-in-another-process|%s' % key.split('|')[0], 'desc': key, 'case': case})
    return out
  if case.get('service'):
    return shard_service({'backends': ['ram', 'sqlmem'], 'algos': ['GRID_SEARCH', 'SHUFFLED_GRID_SEARCH'], 'maxlen': 3})['violations']
  return shard({'designer': case['designer'], 'spaces': [tuple(case['space'])], 'seeds': [case['seed']], 'maxlen': len(case['batches'])})['violations']
