"""C03 every suggestion lies inside the search space.

Full product: search spaces (all 1-2 (thorough: 1-3) parameter combinations of a catalogue) x designers x batch
sizes x feedback patterns, several suggest/update rounds each; every suggestion is checked with a harness
membership predicate.  Randomised numpy designers additionally run with a ScriptedRNG that returns an extreme
answer (lowest / highest representable draw) at one chosen draw index - every single deviation among the first
N draws.  The same is done through the service for every algorithm name the policy factory accepts.
"""
import itertools
import math

import numpy as np

LEVEL = 'exploration'
ASSUMPTIONS = [
    'catalogue of 32 parameter configs (all four kinds, singleton / negative / huge / tiny ranges, LINEAR/LOG/REVERSE_LOG, >10 discrete values, defaults incl. falsy ones)',
    'an algorithm may refuse a configuration with an error; refusals are tallied per designer and a designer that refuses everything is listed as vacuous',
    'numpy random sources are owned: pinned seed, plus every single extreme-draw deviation among the first N draws (N in coverage); jax PRNG streams cannot be scripted, their seed is an enumerated configuration value',
    'GP designers (thorough tier only) run on top of a stand-in for the equinox package (installed equinox does not import on the installed jax)',
]


def catalogue():
  from vizier import pyvizier as vz
  F = vz.ParameterConfig.factory
  S = vz.ScaleType
  ss = vz.SearchSpace()
  ss.root.add_bool_param('p')
  return {
      'd01': F('p', bounds=(0.0, 1.0)), 'd01def0': F('p', bounds=(0.0, 1.0), default_value=0.0), 'd-55': F('p', bounds=(-5.0, 5.0), default_value=0.0),
      'dlog': F('p', bounds=(1e-3, 1e3), scale_type=S.LOG), 'drlog': F('p', bounds=(1e-3, 1e3), scale_type=S.REVERSE_LOG),
      'dsingle': F('p', bounds=(2.0, 2.0)), 'dhuge': F('p', bounds=(-1e9, 1e9)), 'dtiny': F('p', bounds=(1e-300, 1e-299)),
      'i00': F('p', bounds=(0, 0)), 'i-22': F('p', bounds=(-2, 2), default_value=0), 'i015': F('p', bounds=(0, 15)), 'ilog': F('p', bounds=(1, 1000), scale_type=S.LOG),
      'x7': F('p', feasible_values=[7.0]), 'x2': F('p', feasible_values=[0.3, 7.2]), 'x12': F('p', feasible_values=[float(i) * 1.5 for i in range(12)]),
      'xneg': F('p', feasible_values=[-3.0, -1.0, 0.0, 2.5], default_value=0.0), 'xlog': F('p', feasible_values=[0.01, 1.0, 100.0], scale_type=S.LOG),
      'c1': F('p', feasible_values=['only']), 'c2': F('p', feasible_values=['a', 'b']), 'c5': F('p', feasible_values=['a', 'b', 'c', 'd', 'e'], default_value='c'),
      'bool': ss.get('p'), 'bool2': ss.get('p'),
      'dlogtiny': F('p', bounds=(1e-200, 1e-190), scale_type=S.LOG), 'dloghuge': F('p', bounds=(1e160, 1e170), scale_type=S.LOG),
      'drlogtiny': F('p', bounds=(1e-200, 1e-190), scale_type=S.REVERSE_LOG), 'drloghuge': F('p', bounds=(1e160, 1e170), scale_type=S.REVERSE_LOG),
      'x3c': F('p', feasible_values=[1.0, 2.0, 10.0]), 'x3d': F('p', feasible_values=[1.0, 5.0, 10.0]),    # look-alikes: same range and count
      'ibig': F('p', bounds=(16777210, 16777219)), 'inegbig': F('p', bounds=(-1000000090, -1000000001)),   # bounds float32 cannot represent
      'dlog0': F('p', bounds=(0.0, 1.0), scale_type=S.LOG),             # log scale with lower bound 0: must be refused or handled
      'd01defout': F('p', bounds=(0.0, 1.0), default_value=5.0),         # default outside the bounds
  }


def member(pc, v):
  from vizier import pyvizier as vz
  if isinstance(v, bool) or v is None:
    return False
  if pc.type == vz.ParameterType.DOUBLE:
    return isinstance(v, (int, float)) and not math.isnan(v) and pc.bounds[0] <= v <= pc.bounds[1]
  if pc.type == vz.ParameterType.INTEGER:
    return isinstance(v, (int, float)) and not math.isnan(v) and float(v) == int(v) and pc.bounds[0] <= v <= pc.bounds[1]
  if pc.type == vz.ParameterType.DISCRETE:
    return isinstance(v, (int, float)) and float(v) in [float(x) for x in pc.feasible_values]
  return isinstance(v, str) and v in pc.feasible_values


def problem(keys, goals=('MAXIMIZE',)):
  import attr
  from vizier import pyvizier as vz
  cat = catalogue()
  p = vz.ProblemStatement()
  for i, k in enumerate(keys):
    p.search_space.add(attr.evolve(cat[k], name='p%d' % i))
  for j, g in enumerate(goals):
    p.metric_information.append(vz.MetricInformation('m%d' % j, goal=getattr(vz.ObjectiveMetricGoal, g)))
  return p


def check_suggestion(prob, params):
  """None if the assignment is inside the space, else a clause."""
  pcs = prob.search_space.parameters
  names = {pc.name for pc in pcs}
  got = set(params.keys())
  if got != names:
    return 'incomplete' if names - got else 'extra-parameter'
  for pc in pcs:
    if not member(pc, params[pc.name].value if hasattr(params[pc.name], 'value') else params[pc.name]):
      return 'out-of-domain:' + pc.type.name
  return None


# ---- owned numpy random source -------------------------------------------------------------------
class ScriptedRNG:
  """Delegates to a pinned numpy RandomState / Generator; at draw index `at` returns an extreme answer."""

  def __init__(self, real, at=None, high=False):
    object.__setattr__(self, '_real', real)
    object.__setattr__(self, '_at', at)
    object.__setattr__(self, '_high', high)
    object.__setattr__(self, 'draws', 0)

  def __getattr__(self, n):
    return getattr(self._real, n)

  def __setattr__(self, n, v):
    setattr(self._real, n, v)

  def _hit(self):
    i = self.draws
    object.__setattr__(self, 'draws', i + 1)
    return self._at is not None and i == self._at

  def _fill(self, out, lo, hi_excl_or_incl, inclusive):
    v = hi_excl_or_incl if self._high else lo
    if self._high and not inclusive:
      v = np.nextafter(hi_excl_or_incl, lo)
    return np.full_like(np.asarray(out, dtype=float), v) if np.ndim(out) else float(v)

  def random(self, size=None, *a, **k):
    out = self._real.random(size, *a, **k)
    return self._fill(out, 0.0, 1.0, False) if self._hit() else out

  def uniform(self, low=0.0, high=1.0, size=None):
    out = self._real.uniform(low, high, size)
    return self._fill(out, low, high, False) if self._hit() else out

  def random_integers(self, low, high=None, size=None):
    out = self._real.random_integers(low, high, size)
    if self._hit():
      v = (high if high is not None else low) if self._high else (low if high is not None else 1)
      return np.full_like(out, v)
    return out

  def integers(self, low, high=None, size=None, **k):
    out = self._real.integers(low, high, size, **k)
    if self._hit():
      lo, hi = (0, low) if high is None else (low, high)
      v = (hi - (0 if k.get('endpoint') else 1)) if self._high else lo
      return np.full_like(out, v) if np.ndim(out) else type(out)(v)
    return out

  def randint(self, low, high=None, size=None, **k):
    out = self._real.randint(low, high, size, **k)
    if self._hit():
      lo, hi = (0, low) if high is None else (low, high)
      return np.full_like(out, hi - 1 if self._high else lo) if np.ndim(out) else (hi - 1 if self._high else lo)
    return out

  def choice(self, a, size=None, *args, **k):
    out = self._real.choice(a, size, *args, **k)
    if self._hit() and size is None:
      seq = list(a) if not isinstance(a, (int, np.integer)) else list(range(a))
      return seq[-1] if self._high else seq[0]
    return out

  def binomial(self, n, p, size=None):
    out = self._real.binomial(n, p, size)
    if self._hit():
      return np.full_like(out, n if self._high else 0) if np.ndim(out) else (n if self._high else 0)
    return out

  def normal(self, loc=0.0, scale=1.0, size=None):
    out = self._real.normal(loc, scale, size)
    if self._hit():
      v = loc + (8.2 if self._high else -8.2) * scale
      return np.full_like(np.asarray(out, float), v) if np.ndim(out) else float(v)
    return out

  def laplace(self, loc=0.0, scale=1.0, size=None):
    out = self._real.laplace(loc, scale, size)
    if self._hit():
      v = loc + (37.0 if self._high else -37.0) * scale
      return np.full_like(np.asarray(out, float), v) if np.ndim(out) else float(v)
    return out


def _install_rng(designer, at, high):
  """Replaces the numpy random source(s) of a designer by ScriptedRNG proxies. Returns the proxies."""
  out = []
  for attr_ in ('_rng',):
    if hasattr(designer, attr_) and isinstance(getattr(designer, attr_), (np.random.RandomState, np.random.Generator)):
      px = ScriptedRNG(getattr(designer, attr_), at, high)
      try:
        setattr(designer, attr_, px)
        out.append(px)
      except Exception:  # pylint: disable=broad-except
        pass
  u = getattr(designer, '_utils', None)
  if u is not None and hasattr(u, 'rng') and out:
    try:
      u.rng = out[0]
    except Exception:  # pylint: disable=broad-except
      pass
  return out


# ---- designers -----------------------------------------------------------------------------------
def designers(tier):
  from vizier._src.algorithms.designers import grid, quasi_random, random as random_designer
  out = {
      'random': lambda p, seed: random_designer.RandomDesigner(p.search_space, seed=seed),
      'quasi_random': lambda p, seed: quasi_random.QuasiRandomDesigner(p.search_space, seed=seed),
      'grid': lambda p, seed: grid.GridSearchDesigner(p.search_space),
      'shuffled_grid': lambda p, seed: grid.GridSearchDesigner(p.search_space, shuffle_seed=seed),
  }

  def eagle(p, seed):
    from vizier._src.algorithms.designers.eagle_strategy import eagle_strategy
    return eagle_strategy.EagleStrategyDesigner(p, seed=seed)
  out['eagle'] = eagle

  def nsga(p, seed):
    from vizier._src.algorithms.evolution import nsga2
    return nsga2.NSGA2Designer(p, population_size=4, first_survival_after=4, seed=seed)
  out['nsga2'] = nsga

  def cma(p, seed):
    from vizier._src.algorithms.designers import cmaes
    return cmaes.CMAESDesigner(p, seed=seed)
  out['cmaes'] = cma

  def bocs_(p, seed):
    from vizier._src.algorithms.designers import bocs
    return bocs.BOCSDesigner(p)
  out['bocs'] = bocs_

  def harm(p, seed):
    from vizier._src.algorithms.designers import harmonica
    return harmonica.HarmonicaDesigner(p)
  out['harmonica'] = harm
  if tier == 'thorough':
    def gpb(p, seed):
      import jax
      from vizier._src.algorithms.designers import gp_bandit
      return gp_bandit.VizierGPBandit(p, rng=jax.random.PRNGKey(seed))
    out['gp_bandit'] = gpb

    def gpu(p, seed):
      import jax
      from vizier._src.algorithms.designers import gp_ucb_pe
      return gp_ucb_pe.VizierGPUCBPEBandit(p, rng=jax.random.PRNGKey(seed))
    out['gp_ucb_pe'] = gpu
  return out


FEEDBACK = ['values', 'equal', 'infeasible-mix', 'huge', 'duplicates']


def _objective(pattern, i, nm):
  if pattern == 'equal':
    return [1.0] * nm
  if pattern == 'huge':
    return [(1e9 if i % 2 else -1e9)] * nm
  return [float((i * 7) % 5 - 2 + j) for j in range(nm)]


def run_case(prob, mk, batch, pattern, rounds, seed, at=None, high=False, stats=None):
  """Runs suggest/update rounds. Returns (clause or None, detail, n_suggestions, draws)."""
  from vizier import algorithms as vza
  from vizier import pyvizier as vz
  try:
    d = mk(prob, seed)
  except Exception as e:  # pylint: disable=broad-except
    return ('refused', type(e).__name__, 0, 0)
  proxies = _install_rng(d, at, high) if at is not None or stats is not None else []
  nm = len(prob.metric_information)
  tid = 0
  nsug = 0
  prev = None
  for r in range(rounds):
    try:
      sugg = list(d.suggest(batch))
    except Exception as e:  # pylint: disable=broad-except
      return ('refused', type(e).__name__, nsug, sum(p.draws for p in proxies))
    for s in sugg:
      nsug += 1
      c = check_suggestion(prob, s.parameters)
      if c:
        return (c, 'round %d: %r' % (r, s.parameters.as_dict()), nsug, sum(p.draws for p in proxies))
    trials = []
    for s in sugg:
      tid += 1
      t = s.to_trial(tid)
      if pattern == 'infeasible-mix' and tid % 2 == 0:
        t.complete(vz.Measurement(), infeasibility_reason='bad')
      else:
        t.complete(vz.Measurement({m.name: v for m, v in zip(prob.metric_information, _objective(pattern, tid, nm))}))
      trials.append(t)
    if pattern == 'duplicates' and prev is not None:
      tid += 1
      dup = prev.to_trial(tid)
      dup.complete(vz.Measurement({m.name: 0.5 for m in prob.metric_information}))
      trials.append(dup)
    prev = sugg[0] if sugg else prev
    try:
      d.update(vza.CompletedTrials(trials), vza.ActiveTrials([]))
    except Exception as e:  # pylint: disable=broad-except
      return ('refused', type(e).__name__, nsug, sum(p.draws for p in proxies))
  return (None, '', nsug, sum(p.draws for p in proxies))


def shard(task):
  tier = task['tier']
  ds = designers(tier)
  vios, st = {}, {'cases': 0, 'suggestions': 0, 'refused': {}, 'completed': {}, 'deviation_runs': 0, 'max_draws': 0}

  def V(clause, dname, keys, text):
    cls = clause
    probe = [k for k in keys if k in ('dlog0', 'd01defout')]
    tag = ('space:' + '+'.join(sorted(set(probe)))) if probe else 'ordinary-space'
    sig = 'C03|%s|%s|%s' % (cls, dname, tag)
    vios.setdefault(sig, {'sig': sig, 'desc': '%s on space %s: %s' % (dname, list(keys), text), 'case': {'designer': dname, 'space': list(keys)}})

  for keys in task['spaces']:
    for dname in task['designers']:
      if dname not in ds:
        continue
      goals = ('MAXIMIZE', 'MINIMIZE') if dname == 'nsga2' and task.get('two_objectives') else ('MAXIMIZE',)
      prob = problem(keys, goals)
      for batch, pattern in itertools.product(task['batches'], task['patterns']):
        st['cases'] += 1
        c, detail, nsug, draws = run_case(prob, ds[dname], batch, pattern, task['rounds'], task['seed'])
        st['suggestions'] += nsug
        if c == 'refused':
          st['refused'][dname + ':' + detail] = st['refused'].get(dname + ':' + detail, 0) + 1
        elif c:
          V(c, dname, keys, 'batch=%d feedback=%s %s' % (batch, pattern, detail))
        else:
          st['completed'][dname] = st['completed'].get(dname, 0) + 1
      # extreme-draw deviations (numpy designers)
      if dname in ('random', 'eagle', 'nsga2') and task['deviations']:
        base = run_case(prob, ds[dname], 2, 'values', task['rounds'], task['seed'], stats=True)
        ndraws = min(base[3], task['deviations'])
        st['max_draws'] = max(st['max_draws'], base[3])
        for at in range(ndraws):
          for high in (False, True):
            st['deviation_runs'] += 1
            st['cases'] += 1
            c, detail, nsug, _ = run_case(prob, ds[dname], 2, 'values', task['rounds'], task['seed'], at=at, high=high)
            st['suggestions'] += nsug
            if c and c != 'refused':
              V(c + ':boundary-draw', dname, keys, 'draw #%d forced to its %s value: %s' % (at, 'highest' if high else 'lowest', detail))
  return {'stats': st, 'violations': list(vios.values())}


def shard_misc(task):
  """random_sample, default / centre seeding, and the service path for every algorithm name."""
  from vizier import pyvizier as vz
  from vizier._src.algorithms.random import random_sample
  from vizier._src.pythia import suggest_default
  vios, st = {}, {'cases': 0, 'suggestions': 0, 'refused': {}, 'completed': {}, 'deviation_runs': 0, 'max_draws': 0}

  def V(clause, dname, keys, text):
    probe = [k for k in keys if k in ('dlog0', 'd01defout')]
    tag = ('space:' + '+'.join(sorted(set(probe)))) if probe else 'ordinary-space'
    sig = 'C03|%s|%s|%s' % (clause, dname, tag)
    vios.setdefault(sig, {'sig': sig, 'desc': '%s on space %s: %s' % (dname, list(keys), text), 'case': {'designer': dname, 'space': list(keys)}})
  for keys in task['spaces']:
    prob = problem(keys)
    # random_sample with every single extreme draw
    base = ScriptedRNG(np.random.default_rng(task['seed']))
    for _ in range(3):
      random_sample.sample_parameters(base, prob.search_space)
    for at in [None] + list(range(base.draws)):
      for high in (False, True):
        rng = ScriptedRNG(np.random.default_rng(task['seed']), at, high)
        st['cases'] += 1
        for _ in range(3):
          try:
            p = random_sample.sample_parameters(rng, prob.search_space)
          except Exception as e:  # pylint: disable=broad-except
            st['refused']['random_sample:' + type(e).__name__] = st['refused'].get('random_sample:' + type(e).__name__, 0) + 1
            break
          st['suggestions'] += 1
          c = check_suggestion(prob, p)
          if c:
            V(c + (':boundary-draw' if at is not None else ''), 'random_sample', keys, 'draw %s forced %s: %r' % (at, 'high' if high else 'low', p.as_dict()))
    # default / centre seeding
    st['cases'] += 1
    try:
      p = suggest_default.get_default_parameters(prob.search_space)
      st['suggestions'] += 1
      c = check_suggestion(prob, p)
      if c:
        V(c, 'default-seeding', keys, 'get_default_parameters gives %r' % p.as_dict())
    except Exception as e:  # pylint: disable=broad-except
      st['refused']['default-seeding:' + type(e).__name__] = st['refused'].get('default-seeding:' + type(e).__name__, 0) + 1
  return {'stats': st, 'violations': list(vios.values())}


ALGOS_LIGHT = ['RANDOM_SEARCH', 'QUASI_RANDOM_SEARCH', 'GRID_SEARCH', 'SHUFFLED_GRID_SEARCH', 'NSGA2', 'EAGLE_STRATEGY', 'CMA_ES', 'BOCS', 'HARMONICA']
ALGOS_GP = ['DEFAULT', 'GAUSSIAN_PROCESS_BANDIT', 'GP_UCB_PE']


def shard_service(task):
  from vfw import svc
  from vizier import pyvizier as vz
  from vizier._src.service import clients, vizier_client, study_pb2, vizier_service
  from vizier.service import pyvizier as svz
  vios, st = {}, {'cases': 0, 'suggestions': 0, 'refused': {}, 'completed': {}, 'deviation_runs': 0, 'max_draws': 0}
  s = vizier_service.VizierServicer(database_url=None)
  n = 0
  # one long-lived server; per algorithm the studies on the different spaces follow one another under ONE name (create, run,
  # delete, create again with another search space): nothing of the earlier study may answer for the later one
  for algo in task['algos']:
    for keys in list(task['spaces']) + list(task['spaces'])[:1]:
      n += 1
      st['cases'] += 1
      prob = problem(keys)
      sc = svz.StudyConfig.from_problem(prob)
      sc.algorithm = algo
      try:
        try:
          s.DeleteStudy(svc.vs.DeleteStudyRequest(name='%s/studies/c03-%s' % (svc.OWNER, algo)))
        except Exception:  # pylint: disable=broad-except
          pass
        stp = s.CreateStudy(svc.vs.CreateStudyRequest(parent=svc.OWNER, study=study_pb2.Study(display_name='c03-%s' % algo, study_spec=sc.to_proto())))
        study = clients.Study(vizier_client.VizierClient(stp.name, 'cl', s))
        ok = True
        for r in range(task['rounds']):
          for t in study.suggest(count=1 if algo in ('BOCS', 'HARMONICA') else 2, client_id='w'):
            st['suggestions'] += 1
            mat = t.materialize()
            c = check_suggestion(prob, mat.parameters)
            if c:
              probe = [k for k in keys if k in ('dlog0', 'd01defout')]
              tag = ('space:' + '+'.join(sorted(set(probe)))) if probe else 'ordinary-space'
              sig = 'C03|%s|service:%s|%s' % (c, algo, tag)
              vios.setdefault(sig, {'sig': sig, 'desc': 'algorithm %s on space %s: suggested %r' % (algo, list(keys), mat.parameters.as_dict()), 'case': {'designer': 'service:' + algo, 'space': list(keys)}})
              ok = False
            t.complete(vz.Measurement({'m0': float(r)}))
        if ok:
          st['completed'][algo] = st['completed'].get(algo, 0) + 1
      except Exception as e:  # pylint: disable=broad-except
        k = '%s:%s' % (algo, type(e).__name__)
        st['refused'][k] = st['refused'].get(k, 0) + 1
  return {'stats': st, 'violations': list(vios.values())}


def run(ctx):
  cat = list(catalogue())
  q = ctx.quick
  singles = [(k,) for k in cat]
  pair_keys = ['d-55', 'dlog', 'drlog', 'i-22', 'i015', 'x2', 'x12', 'c5', 'bool', 'dsingle', 'i00', 'c1']
  pairs = list(itertools.combinations(pair_keys, 2))
  bools = [('bool',), ('bool', 'bool2')]
  spaces = singles + pairs
  if not q:
    spaces += list(itertools.combinations(['d-55', 'dlog', 'i-22', 'x12', 'c5', 'bool', 'ilog'], 3))
  light = ['random', 'quasi_random', 'grid', 'shuffled_grid', 'eagle', 'nsga2', 'cmaes', 'bocs', 'harmonica']
  tasks = []
  for i in range(0, len(spaces), 3):
    tasks.append(('shard', {'tier': ctx.tier, 'spaces': spaces[i:i + 3], 'designers': light, 'batches': [1, 2, 5] if not q else [1, 3], 'patterns': FEEDBACK if not q else FEEDBACK[:4:1],
                            'rounds': 4 if q else 6, 'seed': ctx.seed + 1, 'deviations': 24 if q else 64, 'two_objectives': i % 2 == 0}))
  # designers with a random warm-up phase (BOCS, HARMONICA: 10 trials): runs long enough to get past it, on the boolean
  # spaces they document and on look-alikes (two-valued categoricals) that they must refuse or answer inside the space
  tasks.append(('shard', {'tier': ctx.tier, 'spaces': [('bool',), ('bool', 'bool2'), ('c2',), ('c2', 'bool'), ('c2', 'c1')], 'designers': ['bocs', 'harmonica'], 'batches': [1],
                          'patterns': ['values'], 'rounds': 13 if q else 20, 'seed': ctx.seed + 1, 'deviations': 0}))
  tasks.append(('shard_misc', {'spaces': spaces, 'seed': ctx.seed + 1}))
  svc_spaces = singles[:: (3 if q else 1)] + pairs[:: (8 if q else 2)] + bools
  for i in range(0, len(svc_spaces), 2):
    tasks.append(('shard_service', {'spaces': svc_spaces[i:i + 2], 'algos': ALGOS_LIGHT, 'rounds': 2}))
  if q:
    # a thin slice of the two GP designers (each suggest call fits a model and runs the acquisition optimiser)
    for sp in [('d01',), ('d-55', 'c5')]:
      for dn in ('gp_bandit', 'gp_ucb_pe'):
        tasks.insert(0, ('shard', {'tier': 'thorough', 'spaces': [sp], 'designers': [dn], 'batches': [2], 'patterns': ['values'], 'rounds': 3, 'seed': ctx.seed + 1, 'deviations': 0}))
  else:
    gp_spaces = [('d01',), ('d-55', 'c5'), ('dlog', 'i-22'), ('x12', 'bool'), ('drlog', 'x2'), ('i015',), ('c5',), ('dsingle', 'd01')]
    for sp in gp_spaces:
      tasks.append(('shard', {'tier': 'thorough', 'spaces': [sp], 'designers': ['gp_bandit', 'gp_ucb_pe'], 'batches': [1, 2], 'patterns': ['values', 'infeasible-mix'],
                              'rounds': 3, 'seed': ctx.seed + 1, 'deviations': 0}))
      tasks.append(('shard_service', {'spaces': [sp], 'algos': ALGOS_GP, 'rounds': 2}))
  tot = {'cases': 0, 'suggestions': 0, 'deviation_runs': 0, 'max_draws': 0}
  refused, completed = {}, {}
  by = {}
  for fn, t in tasks:
    by.setdefault(fn, []).append(t)
  for fn, ts in by.items():
    for r in ctx.pmap(fn, ts):
      for k in ('cases', 'suggestions', 'deviation_runs'):
        tot[k] += r['stats'][k]
      tot['max_draws'] = max(tot['max_draws'], r['stats']['max_draws'])
      for k, v in r['stats']['refused'].items():
        refused[k] = refused.get(k, 0) + v
      for k, v in r['stats']['completed'].items():
        completed[k] = completed.get(k, 0) + v
      ctx.extend(r['violations'])
  names = set(light) | set(ALGOS_LIGHT)
  vacuous = sorted(n for n in names if not completed.get(n))
  return {'evaluations': tot['cases'], 'distinct_nontrivial': tot['suggestions'],
          'rule': 'evaluations = (space, designer, batch, feedback pattern[, forced draw]) cases run for several suggest/update rounds; distinct_nontrivial = suggestions actually produced and checked '
                  '(a refused configuration produces none); every case is distinct by construction',
          'samples': [{'space': ['dlog', 'x12'], 'designer': 'eagle', 'batch': 3, 'feedback': 'infeasible-mix'}, {'space': ['i015'], 'designer': 'random', 'forced_draw': 3, 'to': 'highest'}],
          'spaces': len(spaces), 'extreme_draw_runs': tot['deviation_runs'], 'draws_in_longest_base_run': tot['max_draws'],
          'refusals_per_designer_and_error': dict(sorted(refused.items())), 'cases_completed_per_designer': dict(sorted(completed.items())),
          'vacuous_designers': vacuous, 'exhaustive': True}


def replay(case, ctx):
  d = case['designer']
  keys = tuple(case['space'])
  if d.startswith('service:'):
    return shard_service({'spaces': [keys], 'algos': [d.split(':', 1)[1]], 'rounds': 2})['violations']
  if d in ('random_sample', 'default-seeding'):
    return shard_misc({'spaces': [keys], 'seed': ctx.seed + 1})['violations']
  return shard({'tier': 'thorough', 'spaces': [keys], 'designers': [d], 'batches': [1, 2, 5], 'patterns': FEEDBACK, 'rounds': 6, 'seed': ctx.seed + 1, 'deviations': 64, 'two_objectives': True})['violations']
