"""C08 three deployments agree: every client-level program up to the stated length (BFS, pruned by the
canonical server state) is executed against the in-process servicer, a gRPC DefaultVizierServer and a gRPC
DistributedPythiaVizierServer, each on RAM and in-memory SQLite; return values, exception classes and the
stored state must be pairwise equal, and the exceptions promised by the client interface must be raised
in every deployment."""
import itertools

LEVEL = 'model_checking'
ASSUMPTIONS = [
    'the algorithm is a deterministic scripted policy registered through the policy_factory seam of the three deployments',
    'client alphabet: Study.suggest / trials / optimal_trials / get_trial / add_trial / request / update_metadata / set_state / materialize_* / delete / from_resource_name and Trial.complete / add_measurement / stop / check_early_stopping / delete / update_metadata / materialize, with existing and missing ids, in- and out-of-space trials',
    'timestamps and error messages are not compared; an RPC error is compared by its status code, any other exception by its class',
    'loopback gRPC on localhost inside the sandbox',
    'in-flight scenarios: one suggest is held inside the algorithm by a gate in the scripted policy (the same forced preemption point in every deployment) while other client calls are issued; at most one of them may wait for the operation lock',
]

OPS = [
    ('suggest', 1, 'a'), ('suggest', 2, 'a'), ('suggest', 1, 'b'),
    ('complete', 1, 'm'), ('complete', 1, 'infeasible'), ('complete', 1, 'nothing'), ('complete', 2, 'm'), ('complete', 9, 'm'),
    ('add_measurement', 1), ('add_measurement', 9), ('stop', 1), ('stop', 9), ('check_early_stopping', 1), ('check_early_stopping', 9),
    ('delete_trial', 1), ('delete_trial', 9), ('get_trial', 1), ('get_trial', 9), ('materialize_trial', 1), ('trial_parameters', 1),
    ('trials',), ('optimal_trials',), ('add_trial', 'in'), ('add_trial', 'out'), ('add_trial', 'completed'), ('request',),
    ('update_metadata', 'study'), ('update_metadata', 1), ('update_metadata', 9),
    ('update_metadata', 'study', 'big'), ('update_metadata', 9, 'big'), ('request', 'big'),      # 40 kB arguments, also on the error paths
    ('set_state', 'ABORTED'), ('set_state', 'COMPLETED'), ('set_state', 'ACTIVE'), ('materialize_state',), ('materialize_problem',), ('materialize_study_config',),
    ('from_resource_name', 'existing'), ('from_resource_name', 'missing'), ('delete_study',),
]
READ_ONLY = ('get_trial', 'materialize_trial', 'trial_parameters', 'trials', 'optimal_trials', 'materialize_state', 'materialize_problem', 'materialize_study_config', 'from_resource_name')
_DEPS = {}


class CountingLock:
  """threading.Lock that counts its waiters, so that the harness can tell when a call is parked on it."""

  def __init__(self):
    import threading
    self._l = threading.Lock()
    self.waiters = 0

  def __enter__(self):
    self.waiters += 1
    self._l.acquire()
    self.waiters -= 1
    return self

  def __exit__(self, *a):
    self._l.release()


class Deployment:
  def __init__(self, mode, db, real=False):
    from vfw import svc
    from vizier._src.service import constants, pythia_service, vizier_server, vizier_service
    import datetime
    self.mode, self.db = mode, db
    self.env = svc.ScriptEnv()
    url = None if db == 'ram' else constants.SQL_MEMORY_URL
    if real:      # the shipped algorithms (policies that keep state in the study and ask the service for trials by id)
      from vizier._src.service import policy_factory
      fac = svc.ScriptedFactory(self.env, fallback=policy_factory.DefaultPolicyFactory())
    else:
      fac = svc.ScriptedFactory(self.env)
    if mode == 'local':
      self.servicer = vizier_service.VizierServicer(database_url=url, early_stop_recycle_period=datetime.timedelta(seconds=3600))
      self.servicer.default_pythia_service = pythia_service.PythiaServicer(self.servicer, policy_factory=fac)
      self.service = self.servicer
      self.endpoint = constants.NO_ENDPOINT
    else:
      cls = vizier_server.DefaultVizierServer if mode == 'grpc' else vizier_server.DistributedPythiaVizierServer
      self.server = cls(database_url=url, policy_factory=fac, early_stop_recycle_period=datetime.timedelta(seconds=3600))
      self.servicer = self.server._servicer
      self.service = self.server.stub
      self.endpoint = self.server.endpoint
    import collections
    self.servicer._operation_lock = collections.defaultdict(CountingLock)

  @property
  def name(self):
    return '%s/%s' % (self.mode, self.db)

  def reset(self):
    from vfw import svc
    from vizier._src.service import custom_errors
    try:
      self.servicer.datastore.delete_study(svc.study_name('s'))
    except custom_errors.NotFoundError:
      pass

  def activate(self):
    """Points the client library's global endpoint at this deployment (for from_resource_name)."""
    from vizier._src.service import clients, vizier_client
    clients.environment_variables.server_endpoint = self.endpoint
    if self.mode == 'local':
      vizier_client._create_local_vizier_servicer = lambda: self.servicer


def deployments(which, real=False):
  out = []
  for mode, db in which:
    k = (mode, db, real)
    if k not in _DEPS or getattr(_DEPS[k], 'poisoned', False):
      _DEPS[k] = Deployment(mode, db, real)
    out.append(_DEPS[k])
  return out


def _exc_class(e):
  import grpc
  from vizier._src.service import custom_errors
  from vizier.client import client_abc
  if isinstance(e, client_abc.ResourceNotFoundError):
    return 'ResourceNotFoundError'
  if isinstance(e, grpc.RpcError):
    try:
      return 'RPC:' + e.code().name
    except Exception:  # pylint: disable=broad-except
      return 'RPC:?'
  if isinstance(e, custom_errors.NotFoundError):
    return 'RPC:NOT_FOUND'     # what the same failure is called once it has a status code
  if isinstance(e, (custom_errors.ImmutableStudyError, custom_errors.ImmutableTrialError)):
    return 'RPC:FAILED_PRECONDITION'
  return type(e).__name__


def _view(x):
  from props import c09
  from vizier import pyvizier as vz
  if isinstance(x, vz.Trial):
    d = c09.n_trial(x)
    d.pop('created'), d.pop('completed')
    return tuple(sorted(d.items(), key=repr))
  if isinstance(x, vz.Measurement):
    return ('measurement', c09.n_meas(x))
  if isinstance(x, (list, tuple)):
    return tuple(_view(v) for v in x)
  if isinstance(x, dict):
    return tuple(sorted((k, _view(v)) for k, v in x.items()))
  if hasattr(x, 'search_space') and hasattr(x, 'metric_information'):
    return ('problem', repr(c09.n_problem(x)))
  if hasattr(x, 'name') and hasattr(x, 'value') and not isinstance(x, (int, float, str)):
    return ('enum', x.name)
  return x


def run_op(dep, op):
  """Executes one client-level operation under a deadline. Returns ('ok', view) or ('exc', class)."""
  from vfw import svc
  if getattr(dep, 'poisoned', False):
    return ('exc', 'DOES-NOT-RETURN')     # an earlier call of this program never returned; the server is not asked again
  try:
    with svc.deadline():
      return _run_op(dep, op)
  except svc.Wedged:
    dep.poisoned = True                   # its server may hold locks for ever: a fresh deployment is built for the next program
    return ('exc', 'DOES-NOT-RETURN')


def _run_op(dep, op):
  from vfw import svc
  from vizier import pyvizier as vz
  from vizier._src.service import clients, study_pb2, vizier_client
  dep.activate()
  name = svc.study_name('s')
  client = vizier_client.VizierClient(name, 'unused', dep.service)
  study = clients.Study(client)
  k = op[0]
  try:
    if k == 'suggest':
      r = [t.id for t in study.suggest(count=op[1], client_id=op[2])]
    elif k == 'complete':
      t = clients.Trial(client, op[1])
      if op[2] == 'm':
        r = t.complete(vz.Measurement({'m': 1.5}))
      elif op[2] == 'infeasible':
        r = t.complete(infeasible_reason='bad')
      else:
        r = t.complete()
    elif k == 'add_measurement':
      r = clients.Trial(client, op[1]).add_measurement(vz.Measurement({'m': 0.5}, steps=3, elapsed_secs=1.5))
    elif k == 'stop':
      r = clients.Trial(client, op[1]).stop()
    elif k == 'check_early_stopping':
      r = clients.Trial(client, op[1]).check_early_stopping()
    elif k == 'delete_trial':
      r = clients.Trial(client, op[1]).delete()
    elif k == 'get_trial':
      r = study.get_trial(op[1]).id
    elif k == 'materialize_trial':
      r = clients.Trial(client, op[1]).materialize()
    elif k == 'trial_parameters':
      r = dict(clients.Trial(client, op[1]).parameters)
    elif k == 'trials':
      r = list(study.trials().get())
    elif k == 'optimal_trials':
      r = list(study.optimal_trials().get())
    elif k == 'add_trial':
      if op[1] == 'in':
        r = study.add_trial(vz.Trial(parameters={'x': 0.25})).id
      elif op[1] == 'out':
        r = study.add_trial(vz.Trial(parameters={'x': 5.0})).id
      else:
        t = vz.Trial(parameters={'x': 0.75})
        t.complete(vz.Measurement({'m': 3.0}))
        r = study.add_trial(t).id
    elif k == 'request':
      sg = vz.TrialSuggestion({'x': 0.125})
      if len(op) > 1:
        sg.metadata['blob'] = 'x' * 40000
      r = study.request(sg).id
    elif k == 'update_metadata':
      md = vz.Metadata()
      md['k'] = 'v'
      md.ns('n')['k2'] = 'w'
      if len(op) > 2:
        md['blob'] = 'x' * 40000
      r = study.update_metadata(md) if op[1] == 'study' else clients.Trial(client, op[1]).update_metadata(md)
    elif k == 'set_state':
      r = study.set_state(getattr(vz.StudyState, op[1]))
    elif k == 'materialize_state':
      r = study.materialize_state()
    elif k == 'materialize_problem':
      r = study.materialize_problem_statement()
    elif k == 'materialize_study_config':
      r = study.materialize_study_config().to_problem()
    elif k == 'from_resource_name':
      r = clients.Study.from_resource_name(name if op[1] == 'existing' else svc.study_name('nope')).resource_name
    elif k == 'delete_study':
      r = study.delete()
    else:
      raise KeyError(k)
    return ('ok', _view(r))
  except Exception as e:  # pylint: disable=broad-except
    return ('exc', _exc_class(e))


BLOCKING = ('suggest', 'check_early_stopping', 'delete_study')   # client calls that wait for the per-study operation lock


def run_gated(dep, prefix, during):
  """While worker A's suggest is held inside the algorithm, run `during` (at most its first op may wait for
  the operation lock; it is left pending), release, join, observe. Returns (observations, stored state)."""
  import threading
  from vfw import svc
  from vizier._src.service import study_pb2
  dep.reset()
  dep.env.__init__()
  dep.servicer.CreateStudy(svc.vs.CreateStudyRequest(parent=svc.OWNER, study=study_pb2.Study(display_name='s', study_spec=svc.spec())))
  obs = [run_op(dep, tuple(op)) for op in prefix]
  gate, entered = threading.Event(), threading.Event()
  dep.env.gate, dep.env.entered = gate, entered
  res = {}

  def worker(key, op):
    res[key] = run_op(dep, op)
  ta = threading.Thread(target=worker, args=('A', ('suggest', 1, 'held')), daemon=True)
  ta.start()
  if not entered.wait(timeout=10):
    gate.set()
    ta.join(10)
    return obs + [('exc', 'GATE-NOT-REACHED')], None
  pending = []
  for i, op in enumerate(during):
    if op[0] in BLOCKING:
      t = threading.Thread(target=worker, args=(i, tuple(op)), daemon=True)
      t.start()
      # wait until the call is parked on the operation lock (or has returned without needing it)
      import time
      lock = dep.servicer._operation_lock[svc.study_name('s')]
      t0 = time.time()
      while t.is_alive() and lock.waiters == 0 and time.time() - t0 < 10:
        time.sleep(0.002)
      pending.append((i, t))
    else:
      res[i] = run_op(dep, tuple(op))
  gate.set()
  ta.join(10)
  for i, t in pending:
    t.join(10)
    if t.is_alive():
      res[i] = ('exc', 'HANG')
  if ta.is_alive():
    res['A'] = ('exc', 'HANG')
  obs += [res.get('A')] + [res.get(i) for i in range(len(during))]
  state = svc.canon_state(dep.servicer.datastore, ('s',), ('a', 'b', 'held', 'unused'), 6, svc.CLOCK.now, 10 ** 9)
  return obs, state


ALGO_OPS = [('suggest', 2, 'a'), ('suggest', 1, 'b'), ('complete', 1, 'm'), ('complete', 2, 'm'), ('delete_trial', 1), ('delete_trial', 2), ('delete_trial', 3)]


def algo_shard(task):
  """Client programs against a study served by a shipped, deterministic, stateful algorithm (GRID_SEARCH): its policy keeps
  its state in the study metadata and fetches trials from the service by id, which the scripted policy never does."""
  from vfw import svc
  svc.install_clock()
  vios, n = {}, 0
  outcomes = set()
  for prog in task['programs']:
    n += 1
    deps = deployments([tuple(d) for d in task['deployments']], real=True)
    results = [run_program(d, prog, task['algorithm']) for d in deps]
    o0, s0 = results[0]
    outcomes.add(repr(o0)[:300])
    for d, (o, s_) in zip(deps, results):
      if any(x == ('exc', 'DOES-NOT-RETURN') for x in o):
        sig = 'C08|promise:call-returns|%s' % d.mode
        vios.setdefault(sig, {'sig': sig, 'desc': '[%s] %s program %s: %s' % (d.name, task['algorithm'], list(prog), o), 'case': {'algo': task['algorithm'], 'prog': [list(x) for x in prog]}})
    for d, (o, s_) in zip(deps[1:], results[1:]):
      if o != o0:
        i = [j for j, (a, b) in enumerate(zip(o0, o)) if a != b][0]
        sig = 'C08|algorithm:%s-differs|%s|%s-vs-%s' % ('exception-class' if 'exc' in (o[i][0], o0[i][0]) else 'return-value', prog[i][0], deps[0].mode, d.mode)
        vios.setdefault(sig, {'sig': sig, 'desc': '%s program %s: step %d %s gives %s on %s and %s on %s' % (task['algorithm'], list(prog), i, prog[i], str(o0[i])[:160], deps[0].name, str(o[i])[:160], d.name),
                              'case': {'algo': task['algorithm'], 'prog': [list(x) for x in prog]}})
      elif s_ != s0 and d.db == deps[0].db:
        d0, d1 = dict(s0), dict(s_)
        part = [k for k in d0 if d0[k] != d1.get(k)]
        sig = 'C08|algorithm:stored-state-differs|%s|%s-vs-%s' % ('+'.join(part), deps[0].mode, d.mode)
        vios.setdefault(sig, {'sig': sig, 'desc': '%s program %s: stored %s differ between %s and %s' % (task['algorithm'], list(prog), part, deps[0].name, d.name), 'case': {'algo': task['algorithm'], 'prog': [list(x) for x in prog]}})
  return {'n': n, 'violations': list(vios.values()), 'outcomes': len(outcomes)}


def gated_shard(task):
  from vfw import svc
  svc.install_clock()
  deps = deployments([tuple(d) for d in task['deployments']])
  vios, n = {}, 0
  outcomes = set()
  for prefix, during in task['programs']:
    n += 1
    results = [run_gated(d, prefix, during) for d in deps]
    o0, s0 = results[0]
    outcomes.add(repr(o0)[:200])
    for d, (o, s_) in zip(deps[1:], results[1:]):
      if o != o0:
        idx = [i for i, (x, y) in enumerate(zip(o0, o)) if x != y]
        which = (['A'] + [tuple(op)[0] for op in during])[idx[0] - len(prefix)] if idx and idx[0] >= len(prefix) else 'prefix'
        sig = 'C08|in-flight:outcome-differs|%s|%s-vs-%s' % (which, deps[0].mode, d.mode)
        vios.setdefault(sig, {'sig': sig, 'desc': 'prefix %s, while a suggest is in flight: %s -> %s gives %s, %s gives %s' % (
            list(prefix), list(during), deps[0].name, str(o0)[:300], d.name, str(o)[:300]), 'case': {'gated': True, 'prefix': list(prefix), 'during': list(during)}})
      elif s_ != s0:
        d0, d1 = dict(s0 or ()), dict(s_ or ())
        part = [k for k in d0 if d0[k] != d1.get(k)]
        sig = 'C08|in-flight:stored-state-differs|%s|%s-vs-%s' % ('+'.join(tuple(op)[0] for op in during), deps[0].mode if d.db == deps[0].db else deps[0].name, d.mode if d.db == deps[0].db else d.name)
        vios.setdefault(sig, {'sig': sig, 'desc': 'prefix %s, while a suggest is in flight: %s: stored %s differ between %s and %s' % (list(prefix), list(during), part, deps[0].name, d.name),
                              'case': {'gated': True, 'prefix': list(prefix), 'during': list(during)}})
    for d, (o, s_) in zip(deps, results):
      if any(x is not None and x[0] == 'exc' and x[1] in ('HANG', 'GATE-NOT-REACHED') for x in o):
        sig = 'C08|in-flight:hang|%s' % d.mode
        vios.setdefault(sig, {'sig': sig, 'desc': '[%s] prefix %s during %s: %s' % (d.name, list(prefix), list(during), o), 'case': {'gated': True, 'prefix': list(prefix), 'during': list(during)}})
  return {'n': n, 'violations': list(vios.values()), 'outcomes': len(outcomes)}


def run_program(dep, prog, algorithm='SCRIPTED'):
  from vfw import svc
  from vizier._src.service import study_pb2
  dep.reset()
  dep.env.__init__()
  dep.servicer.CreateStudy(svc.vs.CreateStudyRequest(parent=svc.OWNER, study=study_pb2.Study(display_name='s', study_spec=svc.spec(algorithm))))
  obs = [run_op(dep, tuple(op)) for op in prog]
  state = svc.canon_state(dep.servicer.datastore, ('s',), ('a', 'b', 'unused'), 6, svc.CLOCK.now, 10 ** 9)
  return obs, state


# promises of the client interface (client_abc)
def promise(op, outcome, study_exists, study_active):
  """Returns a clause if a documented promise is broken by this outcome, else None."""
  kind, val = outcome
  if kind == 'exc' and val == 'DOES-NOT-RETURN':
    return 'promise:call-returns'
  if op[0] == 'get_trial' and op[1] == 9 and study_exists:
    return None if (kind == 'exc' and val == 'ResourceNotFoundError') else 'promise:get_trial-missing-raises-ResourceNotFoundError'
  if op[0] == 'from_resource_name' and op[1] == 'missing':
    return None if (kind == 'exc' and val == 'ResourceNotFoundError') else 'promise:from_resource_name-missing-raises-ResourceNotFoundError'
  if op[0] == 'suggest' and study_exists and not study_active:
    return None if (kind == 'ok' and val == ()) else 'promise:suggest-on-finished-study-returns-empty'
  if op[0] == 'add_trial' and op[1] == 'out' and study_exists:
    return None if (kind == 'exc' and val in ('ValueError', 'InvalidParameterError')) else 'promise:add_trial-out-of-space-raises-ValueError'
  return None


def expand(task):
  from vfw import statespace, svc
  svc.install_clock()
  deps = deployments([tuple(d) for d in task['deployments']])
  out = []
  for path, want in task['paths']:
    ref_obs, ref_state = run_program(deps[0], path)
    h0 = statespace.khash(ref_state)
    res = {'path': path, 'key': h0, 'succ': [], 'pruned': 0, 'replay_mismatch': False, 'responses': {}}
    if want is not None and want != h0:
      res['replay_mismatch'] = True
      out.append(res)
      continue
    st = dict(ref_state)
    study_exists = bool(st['studies'])
    study_active = study_exists and dict(st['studies'][0])['state'] in ('ACTIVE', 'STATE_UNSPECIFIED')
    for op in task['ops']:
      prog = list(path) + [op]
      deps = deployments([tuple(d) for d in task['deployments']])     # a deployment whose server got wedged is replaced
      results = [run_program(d, prog) for d in deps]
      vios = []
      o0, s0 = results[0]
      for d, (o, s) in zip(deps, results):
        p = promise(tuple(op), o[-1], study_exists, study_active)
        if p:
          vios.append({'sig': 'C08|%s|%s' % (p, d.mode), 'desc': '[%s] %s after %s -> %s' % (d.name, op, list(path), o[-1]), 'case': None})
      for d, (o, s) in zip(deps[1:], results[1:]):
        if o[-1] != o0[-1]:
          kind = 'exception-class' if 'exc' in (o[-1][0], o0[-1][0]) else 'return-value'
          vios.append({'sig': 'C08|%s-differs|%s|%s-vs-%s' % (kind, op[0], deps[0].mode, d.mode),
                       'desc': '%s after %s: %s gives %s, %s gives %s' % (op, list(path), deps[0].name, str(o0[-1])[:200], d.name, str(o[-1])[:200]), 'case': None})
        elif s != s0:
          d0, d1 = dict(s0), dict(s)
          part = [k for k in d0 if d0[k] != d1.get(k)]
          vios.append({'sig': 'C08|stored-state-differs|%s|%s-vs-%s' % (op[0], deps[0].mode if d.db == deps[0].db else deps[0].name, d.mode if d.db == deps[0].db else d.name),
                       'desc': '%s after %s: stored %s differ between %s and %s: %s | %s' % (op, list(path), part, deps[0].name, d.name, str([d0[k] for k in part])[:300], str([d1[k] for k in part])[:300]), 'case': None})
      res['succ'].append((tuple(op), statespace.khash(s0), vios, o0[-1][0] + ':' + str(o0[-1][1])[:20]))
    out.append(res)
  return out


def run(ctx):
  from vfw import statespace
  if ctx.quick:
    deps = [('local', 'ram'), ('grpc', 'ram'), ('pythia', 'ram'), ('local', 'sql'), ('grpc', 'sql')]
    depth = 2
  else:
    deps = [('local', 'ram'), ('grpc', 'ram'), ('pythia', 'ram'), ('local', 'sql'), ('grpc', 'sql'), ('pythia', 'sql')]
    depth = 3
  cfg = {'deployments': deps, 'ops': OPS}
  s = statespace.Search(ctx, 'expand', depth, cfg, chunk=2)

  # the generic Search passes {'paths', 'cfg'}: adapt
  class _Ctx:
    pass
  cov = _run_search(ctx, s, cfg, depth)
  # programs with a suggest in flight (held inside the algorithm): every single client call, and every pair
  # (call that waits for the operation lock, call that does not) issued meanwhile
  nonblocking = [op for op in OPS if op[0] not in BLOCKING]
  blocking = [op for op in OPS if op[0] in BLOCKING]
  progs = []
  for prefix in ([], [('suggest', 1, 'a')]):
    for op in OPS:
      progs.append((prefix, [op]))
    for b in blocking:
      for x in (nonblocking if not ctx.quick else [o for o in nonblocking if o[0] in ('set_state', 'delete_trial', 'complete', 'update_metadata', 'add_trial', 'stop') and len(o) < 3]):
        progs.append((prefix, [b, x]))
  chunks = [progs[i::16] for i in range(16)]
  gd = deps if not ctx.quick else deps[:4]
  tot = outs = 0
  for r in ctx.pmap('gated_shard', [{'deployments': gd, 'programs': ch} for ch in chunks if ch]):
    tot += r['n']
    outs += r['outcomes']
    ctx.extend(r['violations'])
  cov['in_flight_programs'] = tot
  cov['in_flight_distinct_outcomes'] = outs
  # every client program of length <= 3 (4) over 7 operations against a study served by GRID_SEARCH
  import itertools
  aprogs = [p for L in range(1, 4 if ctx.quick else 5) for p in itertools.product(ALGO_OPS, repeat=L) if p[0][0] == 'suggest']
  achunks = [aprogs[i::16] for i in range(16)]
  an = aouts = 0
  for r in ctx.pmap('algo_shard', [{'deployments': deps[:3], 'programs': ch, 'algorithm': 'GRID_SEARCH'} for ch in achunks if ch]):
    an += r['n']
    aouts += r['outcomes']
    ctx.extend(r['violations'])
  cov['shipped_algorithm_programs'] = an
  cov['shipped_algorithm_distinct_outcomes'] = aouts
  tot += an
  cov['transitions'] += tot
  cov['traces_validated_against_impl'] += tot
  return cov


def _run_search(ctx, s, cfg, depth):
  """Level-synchronous BFS using the shared Search bookkeeping with this module's task format."""
  import types as _t
  orig = ctx.pmap

  def pmap(fname, tasks):
    return orig('expand', [dict(cfg, paths=t['paths']) for t in tasks])
  ctx.pmap = pmap
  try:
    fp = s.run()
  finally:
    ctx.pmap = orig
  c = s.coverage(fp)
  if c['snapshot_vs_replay_mismatches']:
    from vfw.runner import HarnessError
    raise HarnessError('non-deterministic replay of a client program (%d mismatches)' % c['snapshot_vs_replay_mismatches'])
  c['deployments'] = ['%s/%s' % tuple(d) for d in cfg['deployments']]
  c['programs_executed_per_deployment'] = c['transitions']
  c['alphabet_size'] = len(OPS)
  return c


def replay(case, ctx):
  from props import c01
  if case.get('algo'):
    return algo_shard({'deployments': [('local', 'ram'), ('grpc', 'ram'), ('pythia', 'ram')], 'programs': [[tuple(o) for o in case['prog']]], 'algorithm': case['algo']})['violations']
  if case.get('gated'):
    return gated_shard({'deployments': [('local', 'ram'), ('grpc', 'ram'), ('pythia', 'ram'), ('local', 'sql')],
                        'programs': [([tuple(o) for o in case['prefix']], [tuple(o) for o in case['during']])]})['violations']
  task = {'deployments': case['cfg']['deployments'], 'ops': [c01._t(case['action'])], 'paths': [(tuple(c01._t(a) for a in case['path']), None)]}
  r = expand(task)
  return [v for res in r for (_, _, vios, _) in res['succ'] for v in vios]
