"""C17 external types: every trial of small flat / indexed / conditional spaces is stored through the service
(wire doubles / strings) and read back through StudyConfig.trial_parameters and clients.Trial.parameters."""
import itertools

LEVEL = 'exploration'
ASSUMPTIONS = [
    'type oracle: boolean parameter -> bool; DISCRETE declared with integer values (auto_cast) -> int; other DISCRETE and DOUBLE -> float; CATEGORICAL -> str; '
    'INTEGER parameters are compared by value only (the statement does not fix their python type)',
    'a trial that lacks an active parameter is not generated; trials with an unknown or an inactive parameter must be refused with an error',
]


def spaces():
  """name -> (builder(root), description of parameters for the oracle)."""
  from vizier import pyvizier as vz
  out = {}

  # ---- flat, all kinds, auto_cast on/off
  def flat(root):
    root.add_float_param('f', 0.0, 1.0)
    root.add_int_param('i', 0, 2)
    root.add_discrete_param('di', [1, 2])
    root.add_discrete_param('df', [0.5, 1.0])
    root.add_discrete_param('dn', [1, 2], auto_cast=False)
    root.add_discrete_param('dnear', [0.29 * 100, 0.57 * 100])     # 28.999999999999996, 56.99999999999999: floats, not integers
    root.add_categorical_param('c', ['a', 'b'])
    root.add_bool_param('b')
  out['flat'] = (flat, {'dnear': ('float', [0.29 * 100, 0.57 * 100], None), 'f': ('float', [0.0, 0.5, 1.0], None), 'i': ('num', [0, 2], None), 'di': ('int', [1, 2], None), 'df': ('float', [0.5, 1.0], None),
                        'dn': ('float', [1, 2], None), 'c': ('str', ['a', 'b'], None), 'b': ('bool', ['True', 'False'], None)})

  # ---- a "sibling" of the flat space: the same parameter names with other kinds / domains (two studies of one client process)
  def flat_sibling(root):
    root.add_int_param('f', 0, 2)
    root.add_float_param('i', 0.0, 2.0)
    root.add_discrete_param('di', [0.5, 1.0])
    root.add_discrete_param('df', [1, 2])
    root.add_discrete_param('dn', [1, 2])
    root.add_bool_param('c')
    root.add_categorical_param('b', ['True', 'False', 'maybe'])
  out['flat-sibling'] = (flat_sibling, {'f': ('num', [0, 2], None), 'i': ('float', [0.0, 2.0], None), 'di': ('float', [0.5, 1.0], None), 'df': ('int', [1, 2], None),
                                        'dn': ('int', [1, 2], None), 'c': ('bool', ['True', 'False'], None), 'b': ('str', ['True', 'False', 'maybe'], None)})

  # ---- indexed names, created in shuffled order, and a sparse one
  def indexed(root):
    for i in (2, 0, 1):
      root.add_float_param('v', 0.0, 1.0, index=i)
    for i in (3, 0):
      root.add_discrete_param('w', [1, 2], index=i)
    root.add_categorical_param('plain', ['p'])
  out['indexed'] = (indexed, {'v[0]': ('float', [0.1], None), 'v[1]': ('float', [0.2, 0.9], None), 'v[2]': ('float', [0.3], None),
                              'w[0]': ('int', [1, 2], None), 'w[3]': ('int', [2], None), 'plain': ('str', ['p'], None)})

  # ---- a long indexed parameter (two-digit indices: 'w[10]' sorts before 'w[2]' as a string), created shuffled
  def long_indexed(root):
    for i in (11, 3, 0, 10, 7, 1, 2, 9, 4, 8, 5, 6):
      root.add_discrete_param('w', [i, i + 100], index=i)
    for i in (10, 0, 2):
      root.add_bool_param('flag', index=i)
  d = {'w[%d]' % i: ('int', [i, i + 100] if i in (0, 10, 11) else [i], None) for i in range(12)}
  d.update({'flag[%d]' % i: ('bool', ['True', 'False'] if i == 10 else ['False'], None) for i in (0, 2, 10)})
  out['long-indexed'] = (long_indexed, d)

  # ---- conditional: parent kind x single/multiple parent values, depth 2
  def cond(parent_kind, multi):
    def build(root):
      if parent_kind == 'cat':
        root.add_categorical_param('m', ['a', 'b', 'c'])
        pv = ['a', 'b'] if multi else ['a']
      elif parent_kind == 'int':
        root.add_int_param('m', 0, 2)
        pv = [1, 2] if multi else [1]
      elif parent_kind == 'disc':
        root.add_discrete_param('m', [1, 2, 3])
        pv = [2, 3] if multi else [2]
      else:
        root.add_bool_param('m')
        pv = ['True', 'False'] if multi else ['True']
      sel = root.select('m', pv)
      sel.add_discrete_param('k', [1, 2])
      sel.add_bool_param('flag')
      sel2 = sel.select('k', [2])
      sel2.add_float_param('deep', 0.0, 1.0)
      root.add_float_param('top', 0.0, 1.0)
    vals = {'cat': ['a', 'b', 'c'], 'int': [0, 1, 2], 'disc': [1, 2, 3], 'bool': ['True', 'False']}[parent_kind]
    pv = {'cat': ['a', 'b'] if multi else ['a'], 'int': [1, 2] if multi else [1], 'disc': [2, 3] if multi else [2], 'bool': ['True', 'False'] if multi else ['True']}[parent_kind]
    ptype = {'cat': 'str', 'int': 'num', 'disc': 'int', 'bool': 'bool'}[parent_kind]
    desc = {'m': (ptype, vals, None), 'k': ('int', [1, 2], ('m', pv)), 'flag': ('bool', ['True', 'False'], ('m', pv)),
            'deep': ('float', [0.25], ('k', [2])), 'top': ('float', [0.5], None)}
    return build, desc
  for pk in ('cat', 'int', 'disc', 'bool'):
    for multi in (False, True):
      out['cond-%s-%s' % (pk, 'multi' if multi else 'single')] = cond(pk, multi)

  # ---- the same child name under different parent values, with different domains and external types
  # (descriptor keys 'name#k' stand for the k-th declaration of parameter 'name')
  def same_name(root):
    root.add_categorical_param('model', ['small', 'large', 'none'])
    root.select('model', ['small']).add_discrete_param('width', [1, 2, 4])           # integers: auto-cast to int
    root.select('model', ['large']).add_discrete_param('width', [0.5, 1.5, 2.5])     # floats
    root.select('model', ['small']).add_bool_param('opt')
    root.select('model', ['large']).add_categorical_param('opt', ['x', 'True'])       # a plain categorical, not a bool
  out['cond-same-child-name'] = (same_name, {
      'model': ('str', ['small', 'large', 'none'], None),
      'width#0': ('int', [1, 2, 4], ('model', ['small'])), 'width#1': ('float', [0.5, 1.5, 2.5], ('model', ['large'])),
      'opt#0': ('bool', ['True', 'False'], ('model', ['small'])), 'opt#1': ('str', ['x', 'True'], ('model', ['large']))})
  return out


def real(n):
  return n.split('#')[0]


def active_assignments(desc):
  """All assignments of the space: parents first, children only when active."""
  names = list(desc)
  roots = [n for n in names if desc[n][2] is None]

  def expand(partial, todo):
    if not todo:
      yield dict(partial)
      return
    n = todo[0]
    for v in desc[n][1]:
      partial[n] = v
      kids = [c for c in names if desc[c][2] is not None and desc[c][2][0] == n and v in desc[c][2][1]]
      yield from expand(partial, kids + todo[1:])
    partial.pop(n, None)
    for c in names:
      pass
  yield from expand({}, roots)


def expected(desc, assign):
  out = {}
  groups = {}
  for n, v in assign.items():
    t = desc[n][0]
    n = real(n)
    if t == 'bool':
      ev = (v == 'True')
    elif t == 'int':
      ev = int(v)
    elif t == 'float':
      ev = float(v)
    else:
      ev = v
    if '[' in n and n.endswith(']'):
      base, idx = n[:-1].split('[')
      groups.setdefault(base, []).append((int(idx), (t, ev)))
    else:
      out[n] = (t, ev)
  for base, lst in groups.items():
    out[base] = ('list', [x[1] for x in sorted(lst)])
  return out


def _type_ok(t, got):
  if t == 'bool':
    return isinstance(got, bool)
  if t == 'int':
    return isinstance(got, int) and not isinstance(got, bool)
  if t == 'float':
    return isinstance(got, float)
  if t == 'str':
    return isinstance(got, str)
  return isinstance(got, (int, float)) and not isinstance(got, bool)   # 'num': value only


def compare(want, got):
  """Returns a clause name or None."""
  if set(want) != set(got):
    return 'parameter-set'
  for k, (t, ev) in want.items():
    g = got[k]
    if t == 'list':
      if not isinstance(g, (list, tuple)) or len(g) != len(ev):
        return 'indexed-grouping'
      for (tt, e), x in zip(ev, g):
        if x != e:
          return 'indexed-order-or-value'
        if not _type_ok(tt, x):
          return 'type:' + tt
    else:
      if g != ev:
        return 'value'
      if not _type_ok(t, g):
        return 'type:' + t
  return None


def shard(task):
  if 'spaces' in task:      # several spaces in one process, in the given order
    tot = {'n': 0, 'nontrivial': 0, 'violations': []}
    for sp in task['spaces']:
      r = shard({'space': sp, 'backends': task['backends']})
      tot['n'] += r['n']
      tot['nontrivial'] += r['nontrivial']
      tot['violations'] += r['violations']
    return tot
  from vfw import svc
  from vizier import pyvizier as vz
  from vizier.service import pyvizier as svz
  from vizier._src.service import clients, vizier_client, study_pb2
  name = task['space']
  build, desc = spaces()[name]
  vios, n, nontriv = {}, 0, 0
  bs = [svc.Backend(k) for k in task['backends']]
  for b in bs:
    try:
      sc = svz.StudyConfig(algorithm='SCRIPTED')
      build(sc.search_space.root)
      sc.metric_information.append(vz.MetricInformation('m_', goal=vz.ObjectiveMetricGoal.MAXIMIZE))
      st = b.servicer.CreateStudy(svc.vs.CreateStudyRequest(parent=svc.OWNER, study=study_pb2.Study(display_name='s', study_spec=sc.to_proto())))
      client = vizier_client.VizierClient(st.name, 'cl', b.servicer)
      cfg = svz.StudyConfig.from_proto(b.servicer.GetStudy(svc.vs.GetStudyRequest(name=st.name)).study_spec)
    except Exception as e:  # pylint: disable=broad-except
      sig = 'C17|study-setup-raises:%s|%s' % (type(e).__name__, 'conditional' if name.startswith('cond') else name)
      vios.setdefault(sig, {'sig': sig, 'desc': '[%s %s] building / storing / reading back the study raises %r' % (b.kind, name, e), 'case': {'space': name, 'assign': None}})
      n += 1
      continue

    # what a caller may do with a configuration it was handed (e.g. to derive a follow-up study): edit it in place. The study,
    # and every later read of its trials, must not notice.
    try:
      for handed in (client.get_study_config(), clients.Study(client).materialize_study_config(), clients.Study(client).materialize_problem_statement()):
        sp_ = handed.search_space
        first = list(sp_.parameters)[0].name
        sp_.pop(first)
        sp_.root.add_categorical_param(first, ['scribbled-a', 'scribbled-b'])
        sp_.root.add_float_param('scribbled_parameter', 0.0, 1.0)
    except Exception:  # pylint: disable=broad-except
      pass

    def store(assign):
      t = study_pb2.Trial()
      for k, v in assign.items():
        p = t.parameters.add(parameter_id=k)
        if isinstance(v, str):
          p.value.string_value = v
        else:
          p.value.number_value = v
      return b.servicer.CreateTrial(svc.vs.CreateTrialRequest(parent=st.name, trial=t))

    def V(clause, text, assign):
      sig = 'C17|%s|%s' % (clause, 'conditional' if name.startswith('cond') else name)
      vios.setdefault(sig, {'sig': sig, 'desc': '[%s %s] %s (trial %r)' % (b.kind, name, text, assign), 'case': {'space': name, 'assign': repr(assign)}})

    for assign in active_assignments(desc):
      n += 1
      nontriv += 1
      want = expected(desc, assign)
      dassign, assign = assign, {real(k): v for k, v in assign.items()}
      tp = store(assign)
      for via in ('StudyConfig.trial_parameters', 'clients.Trial.parameters'):
        try:
          got = cfg.trial_parameters(tp) if via.startswith('Study') else dict(clients.Trial(client, int(tp.id)).parameters)
        except Exception as e:  # pylint: disable=broad-except
          V('raises:' + type(e).__name__, '%s raises %r' % (via, e), assign)
          continue
        c = compare(want, got)
        if c:
          V(c, '%s returns %r, expected %r' % (via, got, {k: v[1] for k, v in want.items()}), assign)
      # the same trial plus an unknown parameter / an inactive parameter must be an error
      bad = [dict(assign, unknown_param=1.0)]
      for pn, (t, vals, cond) in desc.items():
        if pn not in dassign and real(pn) not in assign:
          bad.append(dict(assign, **{real(pn): vals[0]}))
      for ba in bad:
        n += 1
        nontriv += 1
        tp2 = store(ba)
        for via in ('StudyConfig.trial_parameters', 'clients.Trial.parameters'):
          try:
            got = cfg.trial_parameters(tp2) if via.startswith('Study') else dict(clients.Trial(client, int(tp2.id)).parameters)
            extra = sorted(set(ba) - set(assign))
            V('unknown-or-inactive-not-refused', '%s returns %r for a trial carrying %s' % (via, got, extra), ba)
          except ValueError:
            pass
          except Exception as e:  # pylint: disable=broad-except
            pass  # refused with another error class
  return {'n': n, 'nontrivial': nontriv, 'violations': list(vios.values())}


def run(ctx):
  tasks = [{'space': s, 'backends': ['ram'] if ctx.quick and i % 3 else ['ram', 'sqlmem']} for i, s in enumerate(spaces())]
  tasks.append({'spaces': ['flat', 'flat-sibling', 'flat'], 'backends': ['ram']})     # siblings met by one process, in both orders
  tot = nontriv = 0
  for r in ctx.pmap('shard', tasks):
    tot += r['n']
    nontriv += r['nontrivial']
    ctx.extend(r['violations'])
  return {'evaluations': tot, 'distinct_nontrivial': nontriv,
          'rule': 'every assignment of every space (parents first, children only when active) plus each of them extended by one unknown / one inactive parameter; all distinct by construction and all non-trivial (each carries at least one value whose wire type differs from its declared type)',
          'samples': [{'space': 'cond-int-multi', 'trial': {'m': 2, 'k': 2, 'flag': 'False', 'deep': 0.25, 'top': 0.5}}, {'space': 'indexed', 'trial': {'v[0]': 0.1, 'v[1]': 0.9, 'v[2]': 0.3, 'w[0]': 2, 'w[3]': 2, 'plain': 'p'}}],
          'spaces': len(tasks), 'exhaustive': True}


def replay(case, ctx):
  return shard({'space': case['space'], 'backends': ['ram', 'sqlmem']})['violations']
