"""C18 output warping: every label array up to length n over a 9-value alphabet through the default and the
outlier pipelines (all flag combinations) and every component alone; ranking / finiteness / no-mutation /
inverse oracles scoped exactly as the statement scopes them."""
import itertools

import numpy as np

LEVEL = 'exploration'
ASSUMPTIONS = [
    'label alphabet {-1e6, -1, 0, 1e-9, 1, 1+1e-9, 1e6, NaN, -inf}; arrays of shape (n,1)',
    'yjt.py cannot be imported in this sandbox (tfp.staging missing) and is not covered',
    '"finite, infeasible no higher than the worst feasible" is demanded of the pipelines used before model fitting (default and outlier pipelines with infeasible_warp=True); '
    'strict rank preservation of the default pipeline only; "never reverses two observed values", "same shape", "input not modified" of every pipeline and every component',
    'the inverse is checked when at least two distinct values were observed (the pipeline documents that a constant label set is mapped to zeros and returned as is by unwarp)',
    'inputs a component documents as unsupported when used alone (constant labels for LogWarperComponent, all-NaN for ZScoreLabels / NormalizeLabels / DetectOutliers) may raise or give non-finite values',
]
ALPHA = [-1e6, -1.0, 0.0, 1e-9, 1.0, 1.0 + 1e-9, 1e6, float('nan'), float('-inf')]


def warpers():
  from vizier._src.algorithms.designers.gp import output_warpers as ow
  out = {}
  for h, l, i in itertools.product([True, False], repeat=3):
    if not (h or l or i):
      continue
    out['default(half=%d,log=%d,infeasible=%d)' % (h, l, i)] = (lambda h=h, l=l, i=i: ow.create_default_warper(half_rank_warp=h, log_warp=l, infeasible_warp=i),
                                                                'pre-fit-default' if (h and l and i) else 'pipeline')
  for o, i, g in itertools.product([True, False], repeat=3):
    if not (o or i or g):
      continue
    kind = 'pre-fit' if (o and i and g) else 'pipeline'
    out['outliers(outliers=%d,infeasible=%d,gaussian=%d)' % (o, i, g)] = (lambda o=o, i=i, g=g: ow.create_warp_outliers_warper(warp_outliers=o, infeasible_warp=i, transform_gaussian=g), kind)
  out['HalfRankComponent'] = (ow.HalfRankComponent, 'component')
  out['LogWarperComponent'] = (ow.LogWarperComponent, 'component')
  out['InfeasibleWarperComponent'] = (ow.InfeasibleWarperComponent, 'component')
  out['DetectOutliers'] = (ow.DetectOutliers, 'component')
  out['ZScoreLabels'] = (ow.ZScoreLabels, 'component')
  out['NormalizeLabels'] = (ow.NormalizeLabels, 'component')
  out['TransformToGaussian'] = (ow.TransformToGaussian, 'component')
  return out


def shard(task):
  ws = warpers()
  names = task['warpers']
  firsts = task['firsts']
  vios, n, nontriv = {}, 0, 0

  def V(clause, wname, y, w, extra=''):
    has_nan = bool(np.isnan(y).any() or np.isneginf(y).any())
    sig = 'C18|%s|%s|%s' % (clause, wname.split('(')[0] if ws[wname][1] == 'component' else wname, 'with-infeasible' if has_nan else 'all-feasible')
    if sig not in vios:
      vios[sig] = {'sig': sig, 'desc': '%s on %s -> %s %s' % (wname, y.flatten().tolist(), None if w is None else np.asarray(w).flatten().tolist(), extra),
                   'case': {'warper': wname, 'labels': [repr(float(v)) for v in y.flatten()]}}

  for k in range(1, task['maxlen'] + 1):
    for f in firsts:
      for rest in itertools.product(ALPHA, repeat=k - 1):
        y = np.array((f,) + rest, dtype=np.float64)[:, None]
        feas = np.isfinite(y.flatten())
        yf = y.flatten()
        shared = task.setdefault('_shared', {})
        for wname in names:
          factory, kind = ws[wname]
          n += 1
          if feas.sum() >= 2 and len(set(yf[feas])) >= 2:
            nontriv += 1
          y_in = y.copy()
          try:
            wobj = factory()
            w = np.asarray(wobj.warp(y_in))
          except Exception as e:  # pylint: disable=broad-except
            if kind.startswith('pre-fit'):
              V('raises', wname, y, None, repr(e)[:100])
            continue
          # a designer keeps ONE warper and feeds it its growing history: the long-lived object (it has seen every earlier array
          # of this shard) must answer exactly like the fresh one
          if 'outliers' not in wname and wname != 'TransformToGaussian':
            try:
              if wname not in shared:
                shared[wname] = factory()
              w2 = np.asarray(shared[wname].warp(y.copy()))
              if w2.shape != w.shape or not np.array_equal(w2, w, equal_nan=True):
                V('result-depends-on-earlier-calls', wname, y, w, 'the same warper object, after other arrays, gives %s' % w2.flatten().tolist())
                shared.pop(wname, None)
            except Exception as e:  # pylint: disable=broad-except
              V('result-depends-on-earlier-calls', wname, y, w, 'the reused warper object raises %r' % (e,))
              shared.pop(wname, None)
          # input not modified (bit pattern incl. NaN positions)
          if not (np.array_equal(np.isnan(y_in), np.isnan(y)) and np.array_equal(y_in[~np.isnan(y)], y[~np.isnan(y)])):
            V('input-mutated', wname, y, w)
          if w.shape != y.shape:
            V('shape', wname, y, w, 'shape %s' % (w.shape,))
            continue
          wf = w.flatten()
          if kind.startswith('pre-fit'):
            if not np.isfinite(wf).all():
              V('non-finite-output', wname, y, w)
            elif feas.any() and (~feas).any() and wf[~feas].max() > wf[feas].min():
              V('infeasible-above-feasible', wname, y, w)
          # order of observed (finite) labels
          idx = np.where(feas)[0]
          rev = merged = False
          for a in range(len(idx)):
            for b in range(len(idx)):
              i, j = idx[a], idx[b]
              if yf[i] < yf[j]:
                if wf[i] > wf[j]:
                  rev = True
                elif not (wf[i] < wf[j]):
                  merged = True
              elif yf[i] == yf[j] and a < b and not (wf[i] == wf[j]):
                if kind == 'pre-fit-default':
                  V('equal-values-separated', wname, y, w)
          if rev:
            V('order-reversed', wname, y, w)
          if merged and kind == 'pre-fit-default':
            V('ranking-not-preserved', wname, y, w)
          # inverse, where provided
          # (a constant set of observed values is documented as warped to all zeros and not invertible)
          if kind == 'pre-fit-default' and len(set(yf[feas])) >= 2 and np.isfinite(wf).all():
            try:
              back = np.asarray(wobj.unwarp(w.copy())).flatten()
              rng = yf[feas].max() - yf[feas].min()
              tol = 1e-6 * np.abs(yf[feas]) + 1e-9 * max(rng, 1.0) + 1e-12
              if not np.all(np.abs(back[feas] - yf[feas]) <= tol):
                V('unwarp-inverse', wname, y, w, 'unwarp gives %s' % back.tolist())
            except NotImplementedError:
              pass
            except Exception as e:  # pylint: disable=broad-except
              V('unwarp-raises', wname, y, w, repr(e)[:100])
  return {'n': n, 'nontrivial': nontriv, 'violations': list(vios.values())}


def designer_shard(task):
  """The GP designers warp the labels of every metric with a warper of its own and un-warp predictions with the warpers they
  kept: for 1-3 metrics of very different scales (every assignment of 4 label sets to the metrics), the warper the designer
  keeps for metric i must invert what it did to metric i."""
  import itertools
  import jax
  from vizier import pyvizier as vz
  from vizier._src.algorithms.designers import gp_ucb_pe
  vios, n = {}, 0
  SETS = {'small': [0.3, 1.1, 0.9, 1.92, 0.5], 'big': [700.0, 1500.0, 1100.0, 900.0, 1300.0], 'neg': [-5.0, -1.0, -3.0, -2.0, -4.0], 'ties': [1.0, 1.0, 2.0, 0.0, 2.0]}
  for k in (1, 2, 3):
    for names in itertools.permutations(SETS, k):
      n += 1
      prob = vz.ProblemStatement()
      prob.search_space.root.add_float_param('x', 0.0, 1.0)
      for i in range(k):
        prob.metric_information.append(vz.MetricInformation('m%d' % i, goal=vz.ObjectiveMetricGoal.MAXIMIZE))
      try:
        d = gp_ucb_pe.VizierGPUCBPEBandit(prob, rng=jax.random.PRNGKey(1))
        trials = []
        for j in range(5):
          t = vz.Trial(id=j + 1, parameters={'x': 0.1 + 0.2 * j})
          t.complete(vz.Measurement({'m%d' % i: SETS[nm][j] for i, nm in enumerate(names)}))
          trials.append(t)
        data = d._trials_to_data(trials)     # pylint: disable=protected-access
        kept = list(d._output_warpers)       # pylint: disable=protected-access
        warped = np.asarray(data.labels.unpad())
      except AttributeError:
        continue         # the designer no longer exposes these internals: nothing to observe at this seam
      if len(kept) != k:
        sig = 'C18|designer-keeps-one-warper-per-metric|gp_ucb_pe'
        vios.setdefault(sig, {'sig': sig, 'desc': 'metrics %s: the designer keeps %d warpers for %d metrics' % (names, len(kept), k), 'case': None})
        continue
      for i, nm in enumerate(names):
        back = np.asarray(kept[i].unwarp(warped[:, i:i + 1])).reshape(-1)
        if not np.allclose(back, np.array(SETS[nm]), rtol=1e-4, atol=1e-6):
          sig = 'C18|unwarp-inverse|gp_ucb_pe-per-metric-warpers'
          vios.setdefault(sig, {'sig': sig, 'desc': 'metrics %s: un-warping the warped labels of metric %d (%s = %s) with the warper the designer kept for it gives %s' % (names, i, nm, SETS[nm], back.tolist()), 'case': None})
  return {'n': n, 'nontrivial': n, 'violations': list(vios.values())}


def run(ctx):
  ws = warpers()
  fast = [w for w in ws if 'outliers' not in w and w not in ('TransformToGaussian',)]
  slow = [w for w in ws if w not in fast]
  tasks = []
  L = 4 if ctx.quick else 6
  for f in ALPHA:
    tasks.append({'warpers': fast, 'firsts': [f], 'maxlen': L})
    tasks.append({'warpers': slow, 'firsts': [f], 'maxlen': 3 if ctx.quick else 4})
  if ctx.quick:
    # the default pipeline, the one used before model fitting, one length deeper
    for f in ALPHA:
      tasks.append({'warpers': ['default(half=1,log=1,infeasible=1)'], 'firsts': [f], 'maxlen': 5})
  tot = nontriv = 0
  for r in ctx.pmap('shard', tasks):
    tot += r['n']
    nontriv += r['nontrivial']
    ctx.extend(r['violations'])
  for r in ctx.pmap('designer_shard', [{}]):
    tot += r['n']
    nontriv += r['nontrivial']
    ctx.extend(r['violations'])
  return {'evaluations': tot, 'distinct_nontrivial': nontriv,
          'rule': 'every array over the 9-value alphabet up to the stated length for every pipeline / component (distinct by construction); non-trivial = at least two distinct finite labels, so that order matters',
          'samples': [{'labels': [1.0, 'nan', -1.0, 0.0], 'warper': 'default(half=1,log=1,infeasible=1)'}, {'labels': [0.0, 1e-9, 1e6], 'warper': 'outliers(outliers=1,infeasible=1,gaussian=1)'}],
          'max_len_numpy_pipelines': L, 'warpers': len(ws), 'exhaustive': True}


def replay(case, ctx):
  y = np.array([float(v) for v in case['labels']])
  r = shard({'warpers': [case['warper']], 'firsts': [y[0]], 'maxlen': len(y)})
  return r['violations']
