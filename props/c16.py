"""C16 search-space validation and membership: exhaustive argument / assignment alphabets vs a harness oracle.

(M) ParameterConfig.contains for every (config, value) over a near-miss value alphabet;
(S) SearchSpace.contains for every assignment over keys subset-of names+extra with near-miss values;
(B) every argument combination of ParameterConfig.factory / add_*_param: invalid definitions must be
    rejected, accepted ones must be normalised;
(W) SequentialParameterBuilder (dfs, bfs) on conditional spaces: visits exactly the active parameters for every
    choice path;
(A) clients.Study.add_trial through the service refuses exactly the non-members.
"""
import itertools
import math

LEVEL = 'exploration'
ASSUMPTIONS = [
    'membership oracle = the statement: DOUBLE python int/float within bounds; INTEGER integral within bounds; DISCRETE float(v) in list; CATEGORICAL str in list; '
    'boolean parameter {True, False, "True", "False"}; everything else (wrong kind, NaN, +-inf, None, missing / extra keys) is not a member and contains() must answer False, not raise',
    "don't-care (not compared): python bool offered to a numeric parameter or to a plain categorical one, 0/1 offered to a boolean parameter, numpy scalars",
    "builder don't-care: empty feasible list (CUSTOM type), bool used as a bound, int/float mixed bounds",
]
INF, NAN = float('inf'), float('nan')
VALUES = [0, 1, 2, 3, -1, -3, 0.0, 1.0, 0.5, 2.5, 1.0000000001, -1e-12, 1e-300, 2.0, NAN, INF, -INF, True, False,
          'a', '1', 'True', 'False', '0.5', '', None]


def configs():
  from vizier import pyvizier as vz
  F = vz.ParameterConfig.factory
  ss = vz.SearchSpace()
  ss.root.add_bool_param('p')
  return {
      'double[0,1]': ('DOUBLE', (0.0, 1.0), F('p', bounds=(0.0, 1.0))),
      'double[-1,2.5]': ('DOUBLE', (-1.0, 2.5), F('p', bounds=(-1.0, 2.5))),
      'double[2,2]': ('DOUBLE', (2.0, 2.0), F('p', bounds=(2.0, 2.0))),
      'int[0,2]': ('INTEGER', (0, 2), F('p', bounds=(0, 2))),
      'int[0,0]': ('INTEGER', (0, 0), F('p', bounds=(0, 0))),
      'int[-3,1]': ('INTEGER', (-3, 1), F('p', bounds=(-3, 1))),
      'disc[1,2.5]': ('DISCRETE', [1.0, 2.5], F('p', feasible_values=[1, 2.5])),
      'disc[0]': ('DISCRETE', [0.0], F('p', feasible_values=[0.0])),
      'disc[-1,0.5,2]': ('DISCRETE', [-1.0, 0.5, 2.0], F('p', feasible_values=[-1, 0.5, 2])),
      'cat[a,1]': ('CATEGORICAL', ['a', '1'], F('p', feasible_values=['a', '1'])),
      'cat[True,False]': ('CATEGORICAL', ['True', 'False'], F('p', feasible_values=['True', 'False'])),
      'bool': ('BOOL', None, ss.get('p')),
  }


def member(kind, dom, v):
  """True / False / None (don't-care)."""
  if isinstance(v, bool):
    if kind == 'BOOL':
      return True
    return None
  if v is None:
    return False
  if kind in ('DOUBLE', 'INTEGER', 'DISCRETE'):
    if isinstance(v, str):
      return False
    if isinstance(v, float) and (math.isnan(v) or math.isinf(v)):
      return False
    if kind == 'DOUBLE':
      return dom[0] <= v <= dom[1]
    if kind == 'INTEGER':
      return float(v) == int(v) and dom[0] <= v <= dom[1]
    return float(v) in dom
  if kind == 'CATEGORICAL':
    return isinstance(v, str) and v in dom
  if kind == 'BOOL':
    if isinstance(v, str):
      return v in ('True', 'False')
    if v in (0, 1):
      return None
    return False
  raise KeyError(kind)


def part_member(task):
  vios, n, nontriv = {}, 0, 0
  for name, (kind, dom, cfg) in configs().items():
    for v in VALUES:
      want = member(kind, dom, v)
      n += 1
      if want is None:
        continue
      nontriv += 1
      try:
        got = cfg.contains(v)
      except Exception as e:  # pylint: disable=broad-except
        sig = 'C16|contains-raises|%s|%s' % (kind, type(e).__name__)
        vios.setdefault(sig, {'sig': sig, 'desc': '%s.contains(%r) raises %r instead of answering %s' % (name, v, e, want), 'case': {'part': 'M', 'config': name, 'value': repr(v)}})
        continue
      if got != want:
        sig = 'C16|contains-wrong|%s|%s' % (kind, 'accepts-nonmember' if got else 'rejects-member')
        vios.setdefault(sig, {'sig': sig, 'desc': '%s.contains(%r) = %s, statement says %s' % (name, v, got, want), 'case': {'part': 'M', 'config': name, 'value': repr(v)}})
  return {'n': n, 'nontrivial': nontriv, 'violations': list(vios.values())}


def part_space(task):
  """All assignments over keys subset of names + {extra} with per-kind near-miss values, for flat spaces."""
  from vizier import pyvizier as vz
  cs = configs()
  picks = task['picks']
  vios, n, nontriv = {}, 0, 0
  near = {'DOUBLE': [0.0, 1.0, 1.0000000001, -1e-12, 'a', INF], 'INTEGER': [0, 2, 3, 1.0, 0.5, '1'], 'DISCRETE': [1, 2.5, 2, '1'],
          'CATEGORICAL': ['a', '1', 1, 'b'], 'BOOL': ['True', True, 'a', 2]}
  for combo in picks:
    ss = vz.SearchSpace()
    spec = []
    for i, cname in enumerate(combo):
      kind, dom, cfg = cs[cname]
      pname = 'p%d' % i
      if kind == 'BOOL':
        ss.root.add_bool_param(pname)
      elif kind in ('DOUBLE', 'INTEGER'):
        ss.add(vz.ParameterConfig.factory(pname, bounds=dom))
      else:
        ss.add(vz.ParameterConfig.factory(pname, feasible_values=list(dom)))
      spec.append((pname, kind, dom))
    names = [s[0] for s in spec]
    keysets = []
    for r in range(len(names) + 1):
      for ks in itertools.combinations(names, r):
        keysets.append(ks)
        keysets.append(ks + ('extra',))
    for ks in keysets:
      doms = []
      for k in ks:
        if k == 'extra':
          doms.append([0.5])
        else:
          kind = [s[1] for s in spec if s[0] == k][0]
          doms.append(near[kind])
      for vals in itertools.product(*doms):
        assign = dict(zip(ks, vals))
        n += 1
        want = set(ks) == set(names)
        care = True
        if want:
          for (pname, kind, dom) in spec:
            m = member(kind, dom, assign[pname])
            if m is None:
              care = False
            elif not m:
              want = False
        if not care:
          continue
        nontriv += 1
        try:
          got = ss.contains(vz.ParameterDict(assign))
        except Exception as e:  # pylint: disable=broad-except
          sig = 'C16|space-contains-raises|%s' % type(e).__name__
          vios.setdefault(sig, {'sig': sig, 'desc': 'space %s: contains(%r) raises %r' % (combo, assign, e), 'case': {'part': 'S', 'space': combo, 'assign': repr(assign)}})
          continue
        if got != want:
          sig = 'C16|space-contains-wrong|%s' % ('accepts-nonmember' if got else 'rejects-member')
          vios.setdefault(sig, {'sig': sig, 'desc': 'space %s: contains(%r) = %s, statement says %s' % (combo, assign, got, want), 'case': {'part': 'S', 'space': combo, 'assign': repr(assign)}})
  # conditional spaces must be refused, never answered
  ss = vz.SearchSpace()
  ss.root.add_categorical_param('m', ['a', 'b'])
  ss.root.select('m', ['a']).add_int_param('k', 0, 1)
  for assign in ({'m': 'a', 'k': 0}, {'m': 'b'}, {'m': 'b', 'k': 0}, {}):
    n += 1
    nontriv += 1
    try:
      got = ss.contains(vz.ParameterDict(assign))
      sig = 'C16|conditional-membership-answered'
      vios.setdefault(sig, {'sig': sig, 'desc': 'conditional space answered contains(%r) = %s instead of refusing' % (assign, got), 'case': {'part': 'S'}})
    except NotImplementedError:
      pass
    except Exception as e:  # pylint: disable=broad-except
      pass  # refused with another error class: still "refused"
  return {'n': n, 'nontrivial': nontriv, 'violations': list(vios.values())}


# ------------------------------------------------------------------------------------------------
def _finite(x):
  return isinstance(x, (int, float)) and not isinstance(x, bool) and not (isinstance(x, float) and (math.isnan(x) or math.isinf(x)))


def part_builders(task):
  from vizier import pyvizier as vz
  F = vz.ParameterConfig.factory
  vios, n, nontriv = {}, 0, 0

  def V(sig, desc):
    vios.setdefault(sig, {'sig': sig, 'desc': desc, 'case': {'part': 'B'}})
  B = [0, 1, -2, 1.0, -1.0, 0.5, INF, NAN, True]
  # ---- factory with bounds
  for name in ['', 'a', 'a[0]']:
    for lo, hi in itertools.product(B, repeat=2):
      n += 1
      has_bool = isinstance(lo, bool) or isinstance(hi, bool)
      mixed = isinstance(lo, int) != isinstance(hi, int)
      must_reject = (name == '') or (not has_bool and (not _finite(lo) or not _finite(hi) or lo > hi))
      dont_care = (has_bool or mixed) and name != ''
      try:
        c = F(name, bounds=(lo, hi))
        ok = True
      except (ValueError, TypeError):
        ok = False
      except Exception as e:  # pylint: disable=broad-except
        V('C16|factory-raises-unexpected|%s' % type(e).__name__, 'factory(%r, bounds=(%r,%r)) raises %r' % (name, lo, hi, e))
        continue
      if dont_care:
        continue
      nontriv += 1
      if must_reject and ok:
        why = 'empty-name' if name == '' else ('non-finite-bound' if not (_finite(lo) and _finite(hi)) else 'reversed-bounds')
        V('C16|factory-accepts-invalid|%s' % why, 'factory(%r, bounds=(%r, %r)) was accepted' % (name, lo, hi))
      if not must_reject and not ok:
        V('C16|factory-rejects-valid|bounds', 'factory(%r, bounds=(%r, %r)) was rejected' % (name, lo, hi))
      if ok and not must_reject:
        want_t = 'INTEGER' if isinstance(lo, int) else 'DOUBLE'
        if c.type.name != want_t or tuple(c.bounds) != (lo, hi):
          V('C16|factory-normalisation|bounds', 'factory(bounds=(%r,%r)) gives type %s bounds %s' % (lo, hi, c.type.name, c.bounds))
  # ---- factory with feasible values
  FV = [1, 1.0, 2, -0.5, 'a', 'b', 'True', NAN, INF]
  for k in (1, 2, 3):
    for fv in itertools.product(FV, repeat=k):
      n += 1
      nums = [v for v in fv if not isinstance(v, str)]
      strs = [v for v in fv if isinstance(v, str)]
      dup = len(set(fv)) != len(fv)
      nonfinite = any(not _finite(v) for v in nums)
      mixed = bool(nums) and bool(strs)
      must_reject = dup or nonfinite or mixed
      try:
        c = F('p', feasible_values=list(fv))
        ok = True
      except (ValueError, TypeError):
        ok = False
      except Exception as e:  # pylint: disable=broad-except
        V('C16|factory-raises-unexpected|%s' % type(e).__name__, 'factory(feasible_values=%r) raises %r' % (fv, e))
        continue
      nontriv += 1
      if must_reject and ok:
        why = 'duplicate-values' if dup else ('non-finite-value' if nonfinite else 'mixed-kinds')
        V('C16|factory-accepts-invalid|%s' % why, 'factory(feasible_values=%r) was accepted: %s' % (fv, c.feasible_values))
      if not must_reject and not ok:
        V('C16|factory-rejects-valid|feasible', 'factory(feasible_values=%r) was rejected' % (fv,))
      if ok and not must_reject:
        want_t = 'CATEGORICAL' if strs else 'DISCRETE'
        want_v = sorted(strs) if strs else sorted(float(v) for v in nums)
        got_v = list(c.feasible_values)
        if c.type.name != want_t or got_v != want_v or (not strs and tuple(c.bounds) != (want_v[0], want_v[-1])):
          V('C16|factory-normalisation|feasible', 'factory(feasible_values=%r) gives type %s values %s bounds %s' % (fv, c.type.name, got_v, c.bounds if not strs else None))
  # ---- children under continuous parameters, bad parent values
  child = F('c', bounds=(0, 1))
  for parent_kw, pv, must_reject in [
      (dict(bounds=(0.0, 1.0)), [0.5], True), (dict(bounds=(2.0, 2.0)), [2.0], True), (dict(bounds=(0.0, 0.0)), [0.0], True), (dict(bounds=(0, 2)), [1], False), (dict(bounds=(0, 2)), [7], True),
      (dict(feasible_values=['a', 'b']), ['a'], False), (dict(feasible_values=['a', 'b']), ['z'], True),
      (dict(feasible_values=[1.0, 2.0]), [2.0], False), (dict(feasible_values=[1.0, 2.0]), [3.0], True)]:
    n += 1
    nontriv += 1
    try:
      F('p', children=[(pv, child)], **parent_kw)
      ok = True
    except (ValueError, TypeError):
      ok = False
    if must_reject and ok:
      V('C16|factory-accepts-invalid|children', 'factory(%r, children under parent values %r) was accepted' % (parent_kw, pv))
    if not must_reject and not ok:
      V('C16|factory-rejects-valid|children', 'factory(%r, children under parent values %r) was rejected' % (parent_kw, pv))
  # ---- children under continuous parameters through the selector API (also when the range is a single point)
  for lo, hi, v in [(0.0, 1.0, 0.5), (2.0, 2.0, 2.0), (0.0, 0.0, 0.0), (-1.0, 1.0, 0.0)]:
    for path in ('select', 'select_values'):
      n += 1
      nontriv += 1
      ss = vz.SearchSpace()
      ss.root.add_float_param('d', lo, hi)
      try:
        if path == 'select':
          ss.root.select('d', [v]).add_int_param('child', 0, 1)
        else:
          ss.root.select('d').select_values([v]).add_int_param('child', 0, 1)
        ok = True
      except (ValueError, TypeError, NotImplementedError, KeyError):
        ok = False
      if ok and (ss.is_conditional or [c for c in ss.get('d').child_parameter_configs]):
        V('C16|builder-accepts-invalid|children-under-continuous', '%s on DOUBLE [%r, %r] value %r attached a child parameter' % (path, lo, hi, v))
  # ---- add_*_param builders and duplicate names in one subspace
  for m, args in [('add_float_param', (0, 1)), ('add_int_param', (0, 3)), ('add_discrete_param', ([1, 2],)), ('add_categorical_param', (['a', 'b'],)), ('add_bool_param', ())]:
    for name in ['', 'a']:
      n += 1
      nontriv += 1
      ss = vz.SearchSpace()
      try:
        getattr(ss.root, m)(name, *args)
        ok = True
      except (ValueError, TypeError):
        ok = False
      if name == '' and ok:
        V('C16|builder-accepts-invalid|empty-name', '%s(%r) accepted an empty name' % (m, name))
      if name == 'a' and not ok:
        V('C16|builder-rejects-valid', '%s(%r, %r) was rejected' % (m, name, args))
      if name == 'a' and ok:
        try:
          getattr(ss.root, m)(name, *args)
          V('C16|builder-accepts-invalid|duplicate-name', '%s twice with the same name was accepted' % m)
        except (ValueError, TypeError):
          pass
        pc = ss.get('a')
        if m == 'add_float_param' and (pc.type.name != 'DOUBLE' or not all(isinstance(b, float) for b in pc.bounds)):
          V('C16|builder-normalisation|float-bounds', 'add_float_param(0, 1) gives %s %r' % (pc.type.name, pc.bounds))
  for lo, hi in itertools.product([0, 1.0, -1.0, INF, NAN], repeat=2):
    n += 1
    nontriv += 1
    ss = vz.SearchSpace()
    must_reject = not (_finite(lo) and _finite(hi)) or lo > hi
    try:
      ss.root.add_float_param('a', lo, hi)
      ok = True
    except (ValueError, TypeError):
      ok = False
    if must_reject and ok:
      V('C16|builder-accepts-invalid|bounds', 'add_float_param(%r, %r) was accepted' % (lo, hi))
    if not must_reject and not ok:
      V('C16|builder-rejects-valid', 'add_float_param(%r, %r) was rejected' % (lo, hi))
  return {'n': n, 'nontrivial': nontriv, 'violations': list(vios.values())}


# ------------------------------------------------------------------------------------------------
def _trees():
  """Conditional spaces as nested python data: name -> (values, {value: subtree})."""
  T1 = {'m': (['a', 'b', 'c'], {'a': {'k': ([0, 1], {})}, 'b': {'k2': ([0, 1], {}), 'x': ([0.5, 1.5], {})}})}
  T2 = {'m': (['a', 'b'], {'a': {'k': ([1, 2, 3], {2: {'act': (['r', 't'], {'t': {'g': ([1.0, 2.0], {})}})}, 3: {'act': (['r', 't'], {'t': {'g': ([1.0, 2.0], {})}})}})}}),
        'z': ([0, 1], {})}
  T3 = {'u': ([0, 1], {1: {'v': ([0, 1], {1: {'w': ([0, 1], {1: {'q': (['s'], {})}})}})}}), 'n': (['x', 'y'], {'y': {'nn': ([5, 6], {})}})}
  return [T1, T2, T3]


def _build_space(tree):
  from vizier import pyvizier as vz
  ss = vz.SearchSpace()

  def add(sel, sub):
    for name, (vals, kids) in sub.items():
      if all(isinstance(v, str) for v in vals):
        sel.add_categorical_param(name, vals)
      elif all(isinstance(v, int) for v in vals):
        sel.add_int_param(name, min(vals), max(vals))
      else:
        sel.add_discrete_param(name, vals)
      # group identical subtrees under several parent values (multiple parent values)
      groups = {}
      for v, subtree in kids.items():
        groups.setdefault(repr(subtree), (subtree, []))[1].append(v)
      for subtree, vs in groups.values():
        add(sel.select(name, vs), subtree)
  add(ss.root, tree)
  return ss


def _active(tree, choice):
  out = set()

  def walk(sub):
    for name, (vals, kids) in sub.items():
      out.add(name)
      v = choice(name, vals)
      if v in kids:
        walk(kids[v])
  walk(tree)
  return out


def part_incremental(task):
  """A search space that is queried while it is being built must answer like one that was built in one go: every build
  program over a small alphabet of steps is run twice - with all queries after every step, and with none - and the
  answers at the end are compared (also on a deepcopy taken half way and completed afterwards)."""
  import copy
  from vizier import pyvizier as vz
  vios, n, nontriv = {}, 0, 0
  STEPS = {
      'F': lambda ss: ss.root.add_float_param('f', 0.0, 1.0),
      'M': lambda ss: ss.root.add_categorical_param('m', ['a', 'b']),
      'I': lambda ss: ss.root.add_int_param('i', 0, 2),
      'Ck': lambda ss: ss.root.select('m', ['a']).add_int_param('k', 0, 1),
      'Cflag': lambda ss: ss.root.select('m').select_values(['b']).add_bool_param('flag'),
      'Cdeep': lambda ss: ss.root.select('i', [1]).add_float_param('deep', 0.0, 1.0),
      'Pf': lambda ss: ss.pop('f'),
  }
  PROBES = [{}, {'f': 0.5}, {'m': 'a'}, {'f': 0.5, 'm': 'a'}, {'f': 0.5, 'm': 'b'}, {'f': 0.5, 'm': 'a', 'k': 1}, {'m': 'a', 'k': 1}, {'m': 'b', 'flag': 'True'},
            {'f': 0.5, 'm': 'b', 'flag': 'True'}, {'f': 0.5, 'm': 'a', 'i': 1}, {'f': 0.5, 'm': 'a', 'k': 1, 'i': 1, 'deep': 0.5}, {'i': 1, 'deep': 0.5}, {'i': 0}]

  def query(ss):
    out = []
    try:
      out.append(('is_conditional', ss.is_conditional))
    except Exception as e:  # pylint: disable=broad-except
      out.append(('is_conditional', type(e).__name__))
    try:
      out.append(('names', tuple(sorted(pc.name for pc in ss.parameters))))
    except Exception as e:  # pylint: disable=broad-except
      out.append(('names', type(e).__name__))
    for p in PROBES:
      try:
        out.append((repr(p), ss.contains(vz.ParameterDict(p))))
      except Exception as e:  # pylint: disable=broad-except
        out.append((repr(p), type(e).__name__))
    return out

  def run(prog, query_after, copy_at=None):
    ss = vz.SearchSpace()
    for j, st in enumerate(prog):
      if copy_at == j:
        ss = copy.deepcopy(ss)
      try:
        STEPS[st](ss)
      except Exception as e:  # pylint: disable=broad-except
        return ('build-raises', st, type(e).__name__)
      if query_after:
        query(ss)
    return query(ss)

  progs = [p for L in range(1, 5) for p in itertools.permutations(STEPS, L)]
  for prog in progs:
    n += 1
    plain = run(prog, False)
    if isinstance(plain, tuple):
      continue          # the program itself is refused (child under a missing parent, ...): nothing to compare
    nontriv += 1
    variants = [('queried-after-every-step', run(prog, True))] + [('queried, deep-copied before step %d' % j, run(prog, True, copy_at=j)) for j in range(1, len(prog))]
    for label, got in variants:
      if got != plain:
        diff = [(a, b) for a, b in zip(plain, got) if a != b] if not isinstance(got, tuple) else got
        sig = 'C16|queries-change-later-answers|%s' % ('is_conditional' if any(x[0][0] == 'is_conditional' for x in diff if isinstance(x, tuple) and isinstance(x[0], tuple)) else 'contains')
        vios.setdefault(sig, {'sig': sig, 'desc': 'build program %s: the space %s answers %s, the same space built without intermediate queries answers %s' % (
            list(prog), label, [b for a, b in diff][:4] if not isinstance(got, tuple) else got, [a for a, b in diff][:4] if not isinstance(got, tuple) else '...'), 'case': {'part': 'I', 'prog': list(prog)}})
  return {'n': n, 'nontrivial': nontriv, 'violations': list(vios.values())}


def part_shared_children(task):
  """A child declared once under several parent values is one definition per parent value: refining it under one value must
  not show under the others (every way of declaring it x every branch refined x every branch walked)."""
  from vizier import pyvizier as vz
  from vizier._src.pyvizier.shared import parameter_iterators as pi
  from vizier._src.pyvizier.oss import proto_converters as pc_
  F = vz.ParameterConfig.factory
  vios, n, nontriv = {}, 0, 0

  def V(clause, text, how):
    sig = 'C16|shared-child:%s|%s' % (clause, how)
    vios.setdefault(sig, {'sig': sig, 'desc': text, 'case': {'part': 'H', 'how': how}})

  def declare(how, values):
    ss = vz.SearchSpace()
    if how == 'factory-children':
      ss.add(F('p', feasible_values=['a', 'b', 'z'], children=[(list(values), F('c', feasible_values=['x', 'y']))]))
    elif how == 'select':
      ss.root.add_categorical_param('p', ['a', 'b', 'z'])
      ss.root.select('p', list(values)).add_categorical_param('c', ['x', 'y'])
    elif how == 'from-proto':
      ss = declare('factory-children', values)
      ss2 = vz.SearchSpace()
      ss2.add(pc_.ParameterConfigConverter.from_proto(pc_.ParameterConfigConverter.to_proto(ss.get('p'))))
      ss = ss2
    return ss

  def walk(ss, pv):
    b = pi.SequentialParameterBuilder(ss)
    seen = []
    for pc in b:
      seen.append(pc.name)
      b.choose_value({'p': pv, 'c': 'x', 'g': 0.5}[pc.name])
    return seen

  for how in ('factory-children', 'select', 'from-proto'):
    for values in (('a', 'b'), ('a', 'b', 'z'), ('b', 'z')):
      ss = declare(how, values)
      got = sorted((c.name, v) for c in ss.get('p').child_parameter_configs for v in c.matching_parent_values)
      n += 1
      nontriv += 1
      if got != sorted(('c', v) for v in values):
        V('declaration', '%s under parent values %s: the parent lists its children as %s' % (how, values, got), how)
      for refined in values:
        n += 1
        nontriv += 1
        ss = declare(how, values)
        ss.root.select('p', [refined]).select('c', ['x']).add_float_param('g', 0.0, 1.0)
        for pv in ('a', 'b', 'z'):
          want = ['p'] + (['c'] if pv in values else []) + (['g'] if pv == refined else [])
          try:
            seen = walk(ss, pv)
          except Exception as e:  # pylint: disable=broad-except
            seen = type(e).__name__
          if seen != want:
            V('walk', '%s under %s, grandchild added under p=%r only: the walk with p=%r visits %s, expected %s' % (how, values, refined, pv, seen, want), how)
        tree = sorted((v, sorted(g.name for g in c.child_parameter_configs)) for c in ss.get('p').child_parameter_configs for v in c.matching_parent_values)
        want_tree = sorted((v, ['g'] if v == refined else []) for v in values)
        if tree != want_tree:
          V('tree', '%s under %s, grandchild added under p=%r only: children per parent value are %s, expected %s' % (how, values, refined, tree, want_tree), how)
        # and the refined space survives the wire
        try:
          back = pc_.ParameterConfigConverter.from_proto(pc_.ParameterConfigConverter.to_proto(ss.get('p')))
          tree2 = sorted((v, sorted(g.name for g in c.child_parameter_configs)) for c in back.child_parameter_configs for v in c.matching_parent_values)
          if tree2 != want_tree:
            V('wire', '%s under %s refined under p=%r: after to_proto/from_proto the children per parent value are %s, expected %s' % (how, values, refined, tree2, want_tree), how)
        except Exception as e:  # pylint: disable=broad-except
          V('wire', '%s under %s refined under p=%r: to_proto/from_proto raises %r' % (how, values, refined, e), how)
  return {'n': n, 'nontrivial': nontriv, 'violations': list(vios.values())}


def part_walk(task):
  from vizier._src.pyvizier.shared import parameter_iterators as pi
  vios, n, nontriv = {}, 0, 0
  for ti, tree in enumerate(_trees()):
    ss = _build_space(tree)
    # all parameter names and their value lists
    allp = {}

    def collect(sub):
      for name, (vals, kids) in sub.items():
        allp[name] = vals
        for k in kids.values():
          collect(k)
    collect(tree)
    names = sorted(allp)
    for combo in itertools.product(*[allp[k] for k in names]):
      pick = dict(zip(names, combo))
      want = _active(tree, lambda name, vals: pick[name])
      for order in ('dfs', 'bfs'):
        n += 1
        nontriv += 1
        try:
          b = pi.SequentialParameterBuilder(ss, traverse_order=order)
          seen = []
          for pc in b:
            seen.append(pc.name)
            b.choose_value(pick[pc.name])
          got = set(b.parameters.keys())
        except Exception as e:  # pylint: disable=broad-except
          sig = 'C16|walk-raises|%s' % type(e).__name__
          vios.setdefault(sig, {'sig': sig, 'desc': 'tree %d %s: walking with %r raises %r' % (ti, order, pick, e), 'case': {'part': 'W'}})
          continue
        if got != want or sorted(seen) != sorted(want):
          sig = 'C16|walk-wrong-parameters|%s' % order
          vios.setdefault(sig, {'sig': sig, 'desc': 'tree %d %s: choices %r visit %s / assign %s, active parameters are %s' % (ti, order, pick, seen, sorted(got), sorted(want)), 'case': {'part': 'W'}})
  return {'n': n, 'nontrivial': nontriv, 'violations': list(vios.values())}


def part_add_trial(task):
  from vfw import svc
  from vizier import pyvizier as vz
  from vizier._src.service import clients, vizier_client, study_pb2
  from vizier.service import pyvizier as svz
  vios, n, nontriv = {}, 0, 0
  for kind in task['backends']:
    b = svc.Backend(kind)
    sc = svz.StudyConfig(algorithm='SCRIPTED')
    sc.search_space.root.add_float_param('x', 0.0, 1.0)
    sc.search_space.root.add_int_param('k', 0, 2)
    sc.search_space.root.add_categorical_param('c', ['a', 'b'])
    sc.metric_information.append(vz.MetricInformation('m', goal=vz.ObjectiveMetricGoal.MAXIMIZE))
    st = b.servicer.CreateStudy(svc.vs.CreateStudyRequest(parent=svc.OWNER, study=study_pb2.Study(display_name='s', study_spec=sc.to_proto())))
    study = clients.Study(vizier_client.VizierClient(st.name, 'cl', b.servicer))
    doms = {'x': [0.0, 1.0, 1.0000000001, -1e-12], 'k': [0, 2, 3, 0.5], 'c': ['a', 'z']}
    for keys in [('x', 'k', 'c'), ('x', 'k'), ('x', 'k', 'c', 'extra')]:
      for vals in itertools.product(*[doms.get(k, [0.5]) for k in keys]):
        assign = dict(zip(keys, vals))
        want = set(keys) == {'x', 'k', 'c'} and 0.0 <= assign['x'] <= 1.0 and assign['k'] in (0, 1, 2) and assign['c'] in ('a', 'b')
        n += 1
        nontriv += 1
        before = len(list(study.trials().get()))
        try:
          study.add_trial(vz.Trial(parameters=assign))
          ok = True
        except Exception as e:  # pylint: disable=broad-except
          ok = False
        after = len(list(study.trials().get()))
        if ok != want or (after - before) != (1 if want else 0):
          sig = 'C16|add_trial|%s' % ('accepts-nonmember' if ok else 'rejects-member')
          vios.setdefault(sig, {'sig': sig, 'desc': '[%s] add_trial(%r): accepted=%s stored=%d, membership=%s' % (kind, assign, ok, after - before, want), 'case': {'part': 'A'}})
  return {'n': n, 'nontrivial': nontriv, 'violations': list(vios.values())}


def run(ctx):
  names = list(configs())
  picks = [(a,) for a in names] + [(a, b) for a, b in itertools.combinations(['double[0,1]', 'int[0,2]', 'disc[1,2.5]', 'cat[a,1]', 'bool'], 2)]
  if not ctx.quick:
    picks += list(itertools.combinations(['double[0,1]', 'int[0,2]', 'disc[1,2.5]', 'cat[a,1]', 'bool'], 3))
  tasks = [('part_member', {}), ('part_builders', {}), ('part_walk', {}), ('part_incremental', {}), ('part_shared_children', {}), ('part_add_trial', {'backends': ['ram'] if ctx.quick else ['ram', 'sqlmem']})]
  for i in range(0, len(picks), 3):
    tasks.append(('part_space', {'picks': picks[i:i + 3]}))
  tot = nontriv = 0
  per = {}
  by = {}
  for fn, t in tasks:
    by.setdefault(fn, []).append(t)
  for fn, ts in by.items():
    for r in ctx.pmap(fn, ts):
      tot += r['n']
      nontriv += r['nontrivial']
      per[fn] = per.get(fn, 0) + r['n']
      ctx.extend(r['violations'])
  return {'evaluations': tot, 'distinct_nontrivial': nontriv,
          'rule': 'full products of the argument / value / key-set alphabets (each case distinct by construction); non-trivial = the oracle takes a definite position (the don\'t-care cases listed in assumptions are generated but not counted)',
          'samples': [{'config': 'int[0,2]', 'value': 'inf'}, {'space': ['double[0,1]', 'bool'], 'assignment': {'p0': 1.0000000001, 'p1': 'True'}},
                      {'factory': {'feasible_values': [1, 1.0]}}],
          'cases_per_part': per, 'exhaustive': True}


def replay(case, ctx):
  fn = {'M': part_member, 'S': None, 'B': part_builders, 'W': part_walk, 'A': None, 'I': part_incremental, 'H': part_shared_children}.get(case.get('part'))
  if fn is None:
    return []
  return fn({})['violations']
