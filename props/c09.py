"""C09 wire-format round trip: full products of small value alphabets through every converter.

For each object x:  norm(from_proto(to_proto(x))) == norm(x)   (norm drops exactly the documented
non-transmitted fields and compares times to the microsecond, numbers by value) and
to_proto(from_proto(to_proto(x))) == to_proto(x) (identical message).  Study configs and trials are also
stored and read back through CreateStudy/GetStudy and CreateTrial/GetTrial on RAM and SQLite.
"""
import datetime
import itertools

LEVEL = 'exploration'
ASSUMPTIONS = [
    'only well-formed objects are generated (rules next to each generator); metric min/max values, metric std, checkpoint path, related links and stopping-reason text are not compared',
    'times compared to the microsecond; numbers compared by value (int 1 == float 1.0)',
    'value alphabets: numbers {0, 0.0, 1, -1, 0.5, 1.5, 2.3, 1e-9, 1e18}, strings {"", "a", "a:b", "a\\\\", "u-umlaut", "x[0]"}',
]

NAMES = ['p', 'a:b', 'ü', 'x[0]']
NSS = [(), ('a',), ('a', 'b'), ('a:b',), ('ü', ''), ('',), ('', 'a'), ('', ''), (':',), ('a', '', 'b'), ('', '', 'a')]


def _vz():
  from vizier import pyvizier as vz
  return vz


# ------------------------------------------------------------------------------------------------
# normal forms (what "equal object" means, with the documented exemptions)
def n_num(v):
  if isinstance(v, bool):
    return float(v)
  if isinstance(v, (int, float)):
    return float(v)
  return v


def n_md(md):
  out = {}
  for ns in md.namespaces():
    for k, v in md.abs_ns(ns).items():
      if not isinstance(v, str) and not hasattr(v, 'type_url'):
        from google.protobuf import any_pb2
        a = any_pb2.Any()
        a.Pack(v)
        v = a
      out[(tuple(ns), k)] = v if isinstance(v, str) else ('proto', v.type_url, bytes(v.value))
  return tuple(sorted(out.items(), key=repr))


def n_meas(m):
  if m is None:
    return None
  return (tuple(sorted((k, float(v.value)) for k, v in m.metrics.items())), round(float(m.elapsed_secs), 6), int(m.steps))


def n_time(t):
  if t is None:
    return None
  return round(t.timestamp(), 6)


def n_trial(t):
  return {
      'id': t.id, 'status': t.status.name, 'params': tuple(sorted((k, n_num(v.value)) for k, v in t.parameters.items())),
      'meas': tuple(n_meas(m) for m in t.measurements), 'final': n_meas(t.final_measurement),
      'infeasible': t.infeasible, 'reason': t.infeasibility_reason, 'requested': t.is_requested, 'worker': t.assigned_worker,
      'stopping': t.stopping_reason is not None, 'description': t.description, 'md': n_md(t.metadata),
      'created': n_time(t.creation_time), 'completed': n_time(t.completion_time),
  }


def n_pc(pc):
  ch = []
  for c in pc.child_parameter_configs:
    ch.append((tuple(sorted(c.matching_parent_values, key=repr)), n_pc(c)))
  fv = None
  if pc.type.name in ('DISCRETE', 'CATEGORICAL'):
    fv = tuple(n_num(v) for v in pc.feasible_values)
  bounds = tuple(n_num(b) for b in pc.bounds) if pc.type.name in ('DOUBLE', 'INTEGER') else None
  return (pc.name, pc.type.name, bounds, fv, pc.scale_type.name if pc.scale_type is not None else None,
          None if pc.default_value is None else n_num(pc.default_value), pc.external_type.name if pc.external_type is not None else None,
          tuple(sorted(ch, key=repr)))


def n_metric(m):
  return (m.name, m.goal.name, m.type.name, m.safety_threshold, m.desired_min_safe_trials_fraction)


def n_problem(p):
  return {'space': tuple(n_pc(pc) for pc in p.search_space.parameters), 'metrics': tuple(n_metric(m) for m in p.metric_information),
          'md': n_md(p.metadata)}


def n_study_config(sc):
  d = n_problem(sc)
  # the endpoint travels as a reserved metadata entry (StudyConfig.pythia_endpoint_metadata): it is the
  # wire form of the `pythia_endpoint` attribute, compared through that attribute
  d['md'] = tuple(e for e in d['md'] if e[0] != (('service',), 'PYTHIA_ENDPOINT'))
  d.update({'algorithm': sc.algorithm, 'noise': sc.observation_noise.name, 'stopping': sc.automated_stopping_config is not None,
            'endpoint': sc.pythia_endpoint})
  return d


def n_delta(d):
  return (n_md(d.on_study), tuple(sorted((tid, n_md(m)) for tid, m in d.on_trials.items())))


def n_suggestion(s):
  return (tuple(sorted((k, n_num(v.value)) for k, v in s.parameters.items())), n_md(s.metadata))


# ------------------------------------------------------------------------------------------------
# generators
def gen_parameter_configs(quick):
  vz = _vz()
  F = vz.ParameterConfig.factory
  S = vz.ScaleType
  out = []
  names = NAMES[:2] if quick else NAMES
  for name in names:
    for bounds in [(0.0, 1.0), (-5.0, 5.0), (1e-3, 1e3)]:
      for scale in [None, S.LINEAR, S.LOG, S.REVERSE_LOG]:
        if scale in (S.LOG, S.REVERSE_LOG) and bounds[0] <= 0:
          continue
        for default in [None, 0.0, bounds[0], (bounds[0] + bounds[1]) / 2]:
          if default is not None and not bounds[0] <= default <= bounds[1]:
            continue
          out.append(('double', lambda name=name, bounds=bounds, scale=scale, default=default: F(name, bounds=bounds, scale_type=scale, default_value=default)))
    for bounds in [(0, 0), (-2, 2), (1, 10)]:
      for scale in [None, S.LINEAR, S.LOG]:
        if scale == S.LOG and bounds[0] <= 0:
          continue
        for default in [None, 0, bounds[1]]:
          if default is not None and not bounds[0] <= default <= bounds[1]:
            continue
          out.append(('integer', lambda name=name, bounds=bounds, scale=scale, default=default: F(name, bounds=bounds, scale_type=scale, default_value=default)))
    for fv in [[0.0, 1.5], [7.0], [-1.0, 0.0, 3.0], [1.0, 2.0]]:
      for scale in [None, S.LINEAR]:
        for default in [None, 0.0, fv[-1]]:
          if default is not None and default not in fv:
            continue
          for ext in [None, vz.ExternalType.INTEGER, vz.ExternalType.FLOAT]:
            if ext == vz.ExternalType.INTEGER and any(v != int(v) for v in fv):
              continue
            out.append(('discrete', lambda name=name, fv=fv, scale=scale, default=default, ext=ext: F(name, feasible_values=fv, scale_type=scale, default_value=default, external_type=ext)))
    for fv in [['a', 'b'], ['x'], ['True', 'False'], ['a:b', 'ü']]:
      for default in [None, fv[0]]:
        for ext in [None, vz.ExternalType.BOOLEAN]:
          if ext == vz.ExternalType.BOOLEAN and set(fv) != {'True', 'False'}:
            continue
          out.append(('categorical', lambda name=name, fv=fv, default=default, ext=ext: F(name, feasible_values=fv, default_value=default, external_type=ext)))
  # a child declared once under several parent values (factory(children=[(values, child)])), also with a grandchild
  for pvals in (['a', 'b'], ['a', 'b', 'z'], ['z']):
    for deep in (False, True):
      def build(pvals=pvals, deep=deep):
        child = F('c', feasible_values=['x', 'y'], children=[(['x'], F('g', bounds=(0.0, 1.0)))] if deep else [])
        return F('p', feasible_values=['a', 'b', 'z'], children=[(list(pvals), child)])
      out.append(('conditional-shared-child', build))
  for pvals in ([1, 2], [1, 2, 3]):
    out.append(('conditional-shared-child', lambda pvals=pvals: F('n', bounds=(1, 3), children=[(list(pvals), F('w', feasible_values=[16.0, 64.0], children=[([16.0, 64.0], F('h', bounds=(0.0, 1.0)))]))])))
  return out


def gen_search_spaces(quick):
  """Flat sets and conditional trees of depth 0..3 with single and multiple parent values."""
  vz = _vz()
  out = []

  def flat():
    ss = vz.SearchSpace()
    ss.root.add_float_param('lr', 1e-3, 1.0, scale_type=vz.ScaleType.LOG, default_value=0.1)
    ss.root.add_int_param('n', 0, 3, default_value=0)
    ss.root.add_discrete_param('d', [0.0, 1.5], default_value=0.0)
    ss.root.add_categorical_param('c', ['a', 'b'])
    ss.root.add_bool_param('flag')
    return ss
  out.append(('flat5', flat))

  def single():
    ss = vz.SearchSpace()
    ss.root.add_float_param('x', 0.0, 1.0, default_value=0.0)
    return ss
  out.append(('single-falsy-default', single))

  def tree(depth, parent_kind, multi):
    def build():
      ss = vz.SearchSpace()
      root = ss.root
      if parent_kind == 'cat':
        root.add_categorical_param('model', ['dnn', 'lin', 'tree'])
        sel = root.select('model', ['dnn', 'lin'] if multi else ['dnn'])
      elif parent_kind == 'int':
        root.add_int_param('model', 0, 2)
        sel = root.select('model', [1, 2] if multi else [1])
      else:
        root.add_discrete_param('model', [0.5, 1.0, 2.0])
        sel = root.select('model', [0.5, 2.0] if multi else [2.0])
      if depth >= 1:
        sel.add_int_param('layers', 1, 3)
        sel.add_float_param('wd', 0.0, 1.0)
      if depth >= 2:
        sel2 = sel.select('layers', [2, 3] if multi else [2])
        sel2.add_categorical_param('act', ['relu', 'tanh'])
        sel2.add_float_param('drop', 0.0, 0.5, default_value=0.0)
      if depth >= 3:
        sel3 = sel2.select('act', ['tanh'])
        sel3.add_discrete_param('gain', [1.0, 2.0])
      return ss
    return build
  # different parameters that share a name under different parent values (names are unique per subspace only)
  def same_name(depth2):
    def build():
      ss = vz.SearchSpace()
      root = ss.root
      root.add_categorical_param('model', ['dnn', 'lin', 'tree'])
      root.select('model', ['dnn']).add_float_param('lr', 1e-4, 1e-2, scale_type=vz.ScaleType.LOG)
      root.select('model', ['lin']).add_float_param('lr', 0.01, 1.0)
      root.select('model', ['tree']).add_int_param('lr', 0, 5)
      if depth2:
        s1 = root.select('model', ['dnn'])
        s1.add_categorical_param('opt', ['adam', 'sgd'])
        s1.select('opt', ['adam']).add_float_param('decay', 0.9, 0.999)
        s1.select('opt', ['sgd']).add_int_param('decay', 0, 5, default_value=0)
      return ss
    return build
  out.append(('tree-same-name-d1', same_name(False)))
  out.append(('tree-same-name-d2', same_name(True)))
  for depth in (1, 2, 3):
    for pk in ('cat', 'int', 'disc'):
      for multi in (False, True):
        if quick and pk != 'cat' and depth == 3:
          continue
        out.append(('tree-d%d-%s-%s' % (depth, pk, 'multi' if multi else 'single'), tree(depth, pk, multi)))
  return out


def gen_metric_sets():
  vz = _vz()
  G = vz.ObjectiveMetricGoal
  MI = vz.MetricInformation
  return [
      ('max', lambda: [MI('m', goal=G.MAXIMIZE)]),
      ('min', lambda: [MI('m', goal=G.MINIMIZE)]),
      ('two-unsorted', lambda: [MI('b', goal=G.MAXIMIZE), MI('a', goal=G.MINIMIZE)]),
      ('two-sorted', lambda: [MI('a', goal=G.MAXIMIZE), MI('b', goal=G.MINIMIZE)]),
      ('safety0', lambda: [MI('m', goal=G.MAXIMIZE), MI('s', goal=G.MINIMIZE, safety_threshold=0.0)]),
      ('safety-frac', lambda: [MI('m', goal=G.MAXIMIZE), MI('s', goal=G.MAXIMIZE, safety_threshold=1.5, desired_min_safe_trials_fraction=0.5)]),
      ('safety-frac0', lambda: [MI('m', goal=G.MAXIMIZE), MI('s', goal=G.MAXIMIZE, safety_threshold=-1.0, desired_min_safe_trials_fraction=0.0)]),
      ('names', lambda: [MI('a:b', goal=G.MAXIMIZE), MI('ü', goal=G.MINIMIZE)]),
  ]


def make_md(kind):
  vz = _vz()
  md = vz.Metadata()
  if kind == 'none':
    return md
  from google.protobuf import duration_pb2
  for ns in NSS:
    tgt = md.abs_ns(vz.Namespace(ns))
    if kind in ('str', 'both'):
      tgt['k'] = 'v' + '/'.join(ns)       # distinct per namespace: a collision of two namespaces loses one of them
      tgt['empty'] = ''
    if kind in ('proto', 'both'):
      tgt['p'] = duration_pb2.Duration(seconds=3, nanos=5)
  return md


def gen_study_configs(quick):
  vz = _vz()
  from vizier.service import pyvizier as svz
  from vizier._src.pyvizier.oss import automated_stopping
  spaces = gen_search_spaces(quick)
  metrics = gen_metric_sets()
  algs = ['ALGORITHM_UNSPECIFIED', 'RANDOM_SEARCH', svz.Algorithm.NSGA2, 'my-custom'] if not quick else ['ALGORITHM_UNSPECIFIED', svz.Algorithm.NSGA2]
  noises = list(svz.ObservationNoise)
  out = []
  for (sn, sf), (mn, mf), alg, noise, stop, mdk, ep in itertools.product(
      spaces, metrics, algs, noises if not quick else noises[:2], [None, 'default'], ['none', 'both'] if quick else ['none', 'str', 'proto', 'both'], [None, 'localhost:1234']):
    if quick and (hash((sn, mn, str(alg), noise.name, stop, mdk, ep)) % 4):
      pass

    def build(sf=sf, mf=mf, alg=alg, noise=noise, stop=stop, mdk=mdk, ep=ep):
      sc = svz.StudyConfig(search_space=sf(), metric_information=mf(), algorithm=alg, observation_noise=noise,
                           automated_stopping_config=automated_stopping.AutomatedStoppingConfig.default_stopping_spec() if stop else None,
                           metadata=make_md(mdk), pythia_endpoint=ep)
      return sc
    out.append(('%s|%s|%s|%s|%s|%s|%s' % (sn, mn, alg, noise.name, stop, mdk, ep), build))
  return out


PVALS = [0, 0.0, 1, -1, 0.5, 1.5, 2.3, 1e-9, 1e18, '', 'a', 'a:b', 'ü', 'True']
ELAPSED = [0, 1, 1.5, 2.3]


def gen_measurements():
  vz = _vz()
  out = []
  for metrics in [{}, {'m': 0.0}, {'m': 1.5, 'a:b': -1.0}, {'': 2.0}]:
    for el in ELAPSED:
      for steps in (0, 7):
        out.append(('meas', lambda metrics=metrics, el=el, steps=steps: vz.Measurement(metrics=metrics, elapsed_secs=el, steps=steps)))
  return out


def gen_trials(quick):
  vz = _vz()
  T0 = datetime.datetime(2024, 3, 1, 12, 30, 15, 123456)
  T1 = datetime.datetime(2024, 3, 1, 13, 0, 0, 1)
  out = []
  params_list = [{}, {'x': 0.0}, {'x': 0, 'c': ''}, {'x': 1e18, 'y': -1, 'c': 'a:b'}, {'x[0]': 0.5, 'ü': 'ü', 'b': 'True'}, {'x': 1e-9, 'y': 2.3}]
  meas_lists = [[], [(1.5, 0, {'m': 0.0})], [(0, 7, {'m': 1.0}), (2.3, 7, {'m': 2.0, 'n': 0.0})]]

  def M(el, steps, metrics):
    return vz.Measurement(metrics=metrics, elapsed_secs=el, steps=steps)
  statuses = ['requested', 'active', 'active-unassigned', 'stopping', 'completed', 'infeasible+final', 'infeasible', 'infeasible-empty-reason']
  for st, params, ml, mdk, tid, ctime in itertools.product(statuses, params_list, meas_lists, ['none', 'both'], [1, 7], [None, T0]):
    if quick and len(ml) == 2 and mdk == 'both' and tid == 7:
      continue

    def build(st=st, params=params, ml=ml, mdk=mdk, tid=tid, ctime=ctime):
      kw = dict(id=tid, parameters=params, measurements=[M(*m) for m in ml], metadata=make_md(mdk), creation_time=ctime,
                description='owners/o/studies/s/trials/%d' % tid)
      if st == 'requested':
        kw['is_requested'] = True          # rule: a requested trial has no worker and no measurements
        kw['measurements'] = []
      elif st == 'active':
        kw['assigned_worker'] = 'w'
      elif st == 'stopping':
        kw['assigned_worker'] = 'w'
        kw['stopping_reason'] = 'because'
      elif st == 'completed':
        kw['assigned_worker'] = 'w'
        kw['final_measurement'] = M(2.3, 7, {'m': 0.0})
        kw['completion_time'] = T1 if ctime is not None else None
      elif st == 'infeasible+final':
        kw['final_measurement'] = M(1.5, 0, {'m': 1.0})
        kw['infeasibility_reason'] = 'bad'
        kw['completion_time'] = T1 if ctime is not None else None
      elif st == 'infeasible':
        kw['infeasibility_reason'] = 'bad'
        kw['completion_time'] = T1 if ctime is not None else None
      elif st == 'infeasible-empty-reason':
        kw['infeasibility_reason'] = ''
      return vz.Trial(**kw)
    out.append(('trial:%s' % st, build))
  return out


def gen_deltas():
  vz = _vz()
  out = []
  for study_k, trials in itertools.product(['none', 'str', 'both'], [{}, {1: 'str'}, {1: 'both', 7: 'proto'}]):
    def build(study_k=study_k, trials=trials):
      d = vz.MetadataDelta()
      d.on_study.attach(make_md(study_k))
      for tid, k in trials.items():
        d.on_trials[tid].attach(make_md(k))
      return d
    out.append(('delta', build))
  # one and the same namespace (and key) on the study and on several trials: the units are adjacent in the transport form
  for ns, with_study, tids in itertools.product([(), ('a',), ('', 'a')], [True, False], [(1,), (1, 7), (7, 1, 3)]):
    def build1(ns=ns, with_study=with_study, tids=tids):
      d = vz.MetadataDelta()
      if with_study:
        d.on_study.abs_ns(vz.Namespace(ns))['k'] = 'study'
      for tid in tids:
        d.on_trials[tid].abs_ns(vz.Namespace(ns))['k'] = 'trial-%d' % tid
      return d
    out.append(('delta-one-namespace', build1))
  return out


# ------------------------------------------------------------------------------------------------
def _check(kind, label, build, to_proto, from_proto, norm, vios, stats, exempt=None):
  stats['n'] += 1
  try:
    x = build()
  except Exception as e:  # pylint: disable=broad-except
    stats['unbuildable'] += 1   # the library refuses the definition: not a well-formed object
    return
  stats['built'] += 1
  try:
    p1 = to_proto(x)
    y = from_proto(p1)
    p2 = to_proto(y)
  except Exception as e:  # pylint: disable=broad-except
    sig = 'C09|raises|%s|%s' % (kind, type(e).__name__)
    vios.setdefault(sig, {'sig': sig, 'desc': '%s %s: conversion raises %r' % (kind, label, e), 'case': {'kind': kind, 'label': label}})
    return
  a, b = norm(x), norm(y)
  if a != b:
    fields = _diff_fields(a, b)
    sig = 'C09|roundtrip|%s|%s' % (kind, '+'.join(fields))
    vios.setdefault(sig, {'sig': sig, 'desc': '%s %s: from_proto(to_proto(x)) differs in %s: %s -> %s' % (kind, label, fields, _pick(a, fields), _pick(b, fields)),
                          'case': {'kind': kind, 'label': label}})
  s1 = p1.SerializeToString(deterministic=True) if hasattr(p1, 'SerializeToString') else repr([q.SerializeToString(deterministic=True) for q in p1])
  s2 = p2.SerializeToString(deterministic=True) if hasattr(p2, 'SerializeToString') else repr([q.SerializeToString(deterministic=True) for q in p2])
  if s1 != s2:
    fields = ['list']
    if hasattr(p1, 'ListFields'):
      f1 = {f.name: v for f, v in p1.ListFields()}
      f2 = {f.name: v for f, v in p2.ListFields()}
      fields = sorted(k for k in set(f1) | set(f2) if str(f1.get(k)) != str(f2.get(k)))
    sig = 'C09|second-conversion|%s|%s' % (kind, '+'.join(fields))
    vios.setdefault(sig, {'sig': sig, 'desc': '%s %s: to_proto(from_proto(to_proto(x))) is not identical to to_proto(x):\n%s\n---\n%s' % (kind, label, str(p1)[:400], str(p2)[:400]),
                          'case': {'kind': kind, 'label': label}})
  _scribble(y)


def _scribble(y):
  """What a caller may do with an object it got back from a conversion: write into it. A decoded object that shares a
  mutable part with other decoded objects (or with the converter) poisons every later conversion in this process."""
  try:
    for md in ([y.metadata] if hasattr(y, 'metadata') else []) + ([y.on_study] + list(y.on_trials.values()) if hasattr(y, 'on_study') else []):
      md['scribbled-by-an-earlier-caller'] = 'x'
      md.ns('scribble').ns('')['k'] = 'y'
    if hasattr(y, 'parameters') and hasattr(y.parameters, '__setitem__'):
      y.parameters['scribbled_parameter'] = 1.5
    if hasattr(y, 'measurements') and isinstance(y.measurements, list):
      y.measurements.append(y.measurements[0] if y.measurements else None)
  except Exception:  # pylint: disable=broad-except
    pass


def _diff_fields(a, b):
  if isinstance(a, dict):
    return sorted(k for k in a if a[k] != b.get(k))
  if isinstance(a, tuple) and isinstance(b, tuple) and len(a) == len(b):
    return ['#%d' % i for i in range(len(a)) if a[i] != b[i]]
  return ['value']


def _pick(a, fields):
  if isinstance(a, dict):
    return {k: a[k] for k in fields}
  return a


PC_FIELDS = ['name', 'type', 'bounds', 'feasible', 'scale', 'default', 'external', 'children']


def part(task):
  """One generator family in one worker (optionally under another local time zone: times travel as UTC seconds, objects hold
  naive local datetimes)."""
  if task.get('tz'):
    import os
    import time
    old = os.environ.get('TZ')
    os.environ['TZ'] = task['tz']
    time.tzset()
    try:
      return part(dict(task, tz=None))
    finally:
      if old is None:
        os.environ.pop('TZ', None)
      else:
        os.environ['TZ'] = old
      time.tzset()
  vz = _vz()
  from vizier._src.pyvizier.oss import proto_converters as pc
  from vizier.service import pyvizier as svz
  from vizier import pythia
  quick = task['quick']
  name = task['part']
  vios, stats = {}, {'n': 0, 'built': 0, 'unbuildable': 0}
  if name == 'parameter_config':
    for kind, b in gen_parameter_configs(quick):
      def norm(x):
        t = n_pc(x)
        return dict(zip(PC_FIELDS, t))
      _check('ParameterConfig:' + kind, kind, b, pc.ParameterConfigConverter.to_proto, pc.ParameterConfigConverter.from_proto, norm, vios, stats)
    for label, b in gen_search_spaces(quick):
      for i in range(8):
        def bp(b=b, i=i):
          ps = b().parameters
          return ps[i]
        try:
          bp()
        except IndexError:
          break

        def norm(x):
          return dict(zip(PC_FIELDS, n_pc(x)))
        _check('ParameterConfig:conditional' if 'tree' in label else 'ParameterConfig:flat', label, bp,
               pc.ParameterConfigConverter.to_proto, pc.ParameterConfigConverter.from_proto, norm, vios, stats)
  elif name == 'measurement':
    for kind, b in gen_measurements():
      _check('Measurement', kind, b, pc.MeasurementConverter.to_proto, pc.MeasurementConverter.from_proto,
             lambda m: dict(zip(['metrics', 'elapsed', 'steps'], n_meas(m))), vios, stats)
    for label, mf in gen_metric_sets():
      for i in range(2):
        def bm(mf=mf, i=i):
          return mf()[i]
        _check('MetricInformation', label, bm, pc.MetricInformationConverter.to_proto, pc.MetricInformationConverter.from_proto,
               lambda m: dict(zip(['name', 'goal', 'type', 'safety_threshold', 'fraction'], n_metric(m))), vios, stats)
  elif name == 'study_config':
    allc = gen_study_configs(quick)
    sh, nsh = task['shard']
    for i, (label, b) in enumerate(allc):
      if i % nsh != sh:
        continue
      _check('StudyConfig', label, b, lambda x: x.to_proto(), svz.StudyConfig.from_proto, n_study_config, vios, stats)
      if i % 7 == 0:
        _check('ProblemStatement', label, lambda b=b: b().to_problem(), pc.ProblemStatementConverter.to_proto, pc.ProblemStatementConverter.from_proto, n_problem, vios, stats)
  elif name == 'trial':
    allt = gen_trials(quick)
    sh, nsh = task['shard']
    for i, (label, b) in enumerate(allt):
      if i % nsh != sh:
        continue
      _check(label.replace('trial:', 'Trial:'), label, b, pc.TrialConverter.to_proto, pc.TrialConverter.from_proto, n_trial, vios, stats)
      if label in ('trial:requested', 'trial:active'):
        _check('TrialSuggestion', label, lambda b=b: vz.TrialSuggestion(b().parameters, metadata=b().metadata),
               pc.TrialSuggestionConverter.to_proto, pc.TrialSuggestionConverter.from_proto,
               lambda s: dict(zip(['params', 'md'], n_suggestion(s))), vios, stats)
  elif name == 'delta':
    for label, b in gen_deltas():
      _check('MetadataDelta', label, b, pc.MetadataDeltaConverter.to_protos, pc.MetadataDeltaConverter.from_protos,
             lambda d: dict(zip(['on_study', 'on_trials'], n_delta(d))), vios, stats)
    # algorithm requests / decisions
    probs = [b for _, b in gen_study_configs(True)][::97][:6]
    for pi, pb in enumerate(probs):
      for count, ckpt, mx in itertools.product([1, 5], [None, 'dir/ckpt'], [0, 9]):
        def breq(pb=pb, count=count, ckpt=ckpt, mx=mx):
          return pythia.SuggestRequest(study_descriptor=vz.StudyDescriptor(pb().to_problem(), guid='owners/o/studies/s', max_trial_id=mx), count=count, checkpoint_dir=ckpt)
        _check('SuggestRequest', 'p%d' % pi, breq, pc.SuggestConverter.to_request_proto, pc.SuggestConverter.from_request_proto,
               lambda r: {'problem': n_problem(r.study_config), 'guid': r.study_guid, 'max_trial_id': r.max_trial_id, 'count': r.count, 'checkpoint_dir': r.checkpoint_dir}, vios, stats)
      for tids, ckpt in itertools.product([None, [1], [1, 7]], [None, 'dir/ckpt']):
        def besr(pb=pb, tids=tids, ckpt=ckpt):
          return pythia.EarlyStopRequest(study_descriptor=vz.StudyDescriptor(pb().to_problem(), guid='g', max_trial_id=3), trial_ids=tids, checkpoint_dir=ckpt)
        _check('EarlyStopRequest', 'p%d' % pi, besr, pc.EarlyStopConverter.to_request_proto, pc.EarlyStopConverter.from_request_proto,
               lambda r: {'problem': n_problem(r.study_config), 'guid': r.study_guid, 'max_trial_id': r.max_trial_id,
                          'trial_ids': None if r.trial_ids is None else tuple(sorted(r.trial_ids)), 'checkpoint_dir': r.checkpoint_dir}, vios, stats)
    for (dl, db), nsug in itertools.product(gen_deltas(), [0, 1, 3]):
      def bdec(db=db, nsug=nsug):
        return pythia.SuggestDecision([vz.TrialSuggestion({'x': PVALS[i], 'c': 'a:b'}, metadata=make_md('str' if i else 'none')) for i in range(nsug)], db())
      _check('SuggestDecision', dl, bdec, pc.SuggestConverter.to_decision_proto, pc.SuggestConverter.from_decision_proto,
             lambda d: {'suggestions': tuple(n_suggestion(s) for s in d.suggestions), 'metadata': n_delta(d.metadata)}, vios, stats)
      for stop, pfm in itertools.product([True, False], [None, 'm']):
        def besd(db=db, stop=stop, pfm=pfm, nsug=nsug):
          ds = [pythia.EarlyStopDecision(id=i + 1, reason='r%d' % i, should_stop=stop,
                                         predicted_final_measurement=vz.Measurement({'m': 1.5}, elapsed_secs=1.5) if pfm else None) for i in range(nsug)]
          return pythia.EarlyStopDecisions(ds, db())
        _check('EarlyStopDecisions', dl, besd, pc.EarlyStopConverter.to_decisions_proto, pc.EarlyStopConverter.from_decisions_proto,
               lambda d: {'decisions': tuple((x.id, x.reason, x.should_stop, n_meas(x.predicted_final_measurement)) for x in d.decisions), 'metadata': n_delta(d.metadata)}, vios, stats)
  elif name == 'service':
    from vfw import svc
    from vizier._src.service import study_pb2
    allc = gen_study_configs(True)
    sh, nsh = task['shard']
    bs = [svc.Backend(k) for k in task['backends']]
    snaps = [b.snapshot() for b in bs]
    for i, (label, b) in enumerate(allc):
      if i % nsh != sh:
        continue
      stats['n'] += 1
      try:
        x = b()
      except Exception:  # pylint: disable=broad-except
        continue
      stats['built'] += 1
      for bk, sn in zip(bs, snaps):
        bk.restore(sn)
        st = bk.servicer.CreateStudy(svc.vs.CreateStudyRequest(parent=svc.OWNER, study=study_pb2.Study(display_name='s', study_spec=x.to_proto())))
        got = svz.StudyConfig.from_proto(bk.servicer.GetStudy(svc.vs.GetStudyRequest(name=st.name)).study_spec)
        a, c = n_study_config(x), n_study_config(got)
        if a != c:
          f = _diff_fields(a, c)
          sig = 'C09|service-roundtrip|StudyConfig|%s' % '+'.join(f)
          vios.setdefault(sig, {'sig': sig, 'desc': '[%s] %s: GetStudy(CreateStudy(x)) differs in %s: %s -> %s' % (bk.kind, label, f, _pick(a, f), _pick(c, f)), 'case': {'kind': 'service', 'label': label}})
    for i, (label, b) in enumerate(gen_trials(True)):
      if i % nsh != sh or not label.endswith(('requested', 'completed', 'infeasible+final', 'infeasible')):
        continue
      stats['n'] += 1
      x = b()
      stats['built'] += 1
      for bk, sn in zip(bs, snaps):
        bk.restore(sn)
        svc.apply(bk, ('CreateStudy', 's'))
        tp = bk.servicer.CreateTrial(svc.vs.CreateTrialRequest(parent=svc.study_name('s'), trial=pc.TrialConverter.to_proto(x)))
        got = pc.TrialConverter.from_proto(bk.servicer.GetTrial(svc.vs.GetTrialRequest(name=tp.name)))
        a, c = n_trial(x), n_trial(got)
        for k in ('id', 'description', 'created', 'worker', 'completed'):   # assigned by the service
          a.pop(k), c.pop(k)
        if a != c:
          f = _diff_fields(a, c)
          sig = 'C09|service-roundtrip|%s|%s' % (label.replace('trial:', 'Trial:'), '+'.join(f))
          vios.setdefault(sig, {'sig': sig, 'desc': '[%s] %s: GetTrial(CreateTrial(x)) differs in %s: %s -> %s' % (bk.kind, label, f, _pick(a, f), _pick(c, f)), 'case': {'kind': 'service', 'label': label}})
  return {'stats': stats, 'violations': list(vios.values()), 'part': name}


def run(ctx):
  q = ctx.quick
  tasks = [{'part': 'parameter_config', 'quick': q}, {'part': 'measurement', 'quick': q}, {'part': 'delta', 'quick': q}]
  for i in range(12):
    tasks.append({'part': 'study_config', 'quick': q, 'shard': (i, 12)})
  for i in range(6):
    tasks.append({'part': 'trial', 'quick': q, 'shard': (i, 6)})
  for i in range(8):
    tasks.append({'part': 'service', 'quick': q, 'shard': (i, 8), 'backends': ['ram', 'sqlmem']})
  # the parts that carry times, again under local time zones with a half-hour offset east and west of UTC
  for tz in ('Asia/Kolkata', 'America/St_Johns'):
    for sh in (0, 1):     # both parities: the innermost generator field (the creation time) alternates
      tasks.append({'part': 'trial', 'quick': True, 'shard': (sh, 6 if q else 2), 'tz': tz})
      tasks.append({'part': 'service', 'quick': True, 'shard': (sh, 8 if q else 2), 'backends': ['ram'], 'tz': tz})
  tot = {'n': 0, 'built': 0, 'unbuildable': 0}
  per = {}
  for r in ctx.pmap('part', tasks):
    for k in tot:
      tot[k] += r['stats'][k]
    per[r['part']] = per.get(r['part'], 0) + r['stats']['built']
    ctx.extend(r['violations'])
  return {
      'evaluations': tot['n'], 'distinct_nontrivial': tot['built'],
      'rule': 'full product of the per-field alphabets of each generator (every generated object is distinct by construction); non-trivial = the library accepted the '
              'definition and the object was converted (definitions the library refuses are counted under unbuildable and not converted)',
      'samples': [{'kind': 'ParameterConfig', 'name': 'a:b', 'bounds': [-5.0, 5.0], 'scale': 'LINEAR', 'default': 0.0},
                  {'kind': 'Trial', 'status': 'infeasible+final', 'params': {'x': 1e18, 'y': -1, 'c': 'a:b'}, 'elapsed': [0, 2.3]}],
      'objects_per_part': per, 'unbuildable': tot['unbuildable'], 'exhaustive': True,
  }


def replay(case, ctx):
  r = part({'part': {'ParameterConfig': 'parameter_config', 'Measurement': 'measurement', 'MetricInformation': 'measurement', 'StudyConfig': 'study_config',
                     'ProblemStatement': 'study_config', 'Trial': 'trial', 'TrialSuggestion': 'trial', 'service': 'service'}.get(case['kind'].split(':')[0], 'delta'),
            'quick': False, 'shard': (0, 1), 'backends': ['ram', 'sqlmem']})
  return r['violations']
