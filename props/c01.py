"""C01 Trial lifecycle: explicit-state BFS over the real VizierServicer with a reference model."""
from vfw import lifecycle, statespace, svc
from vfw.lifecycle import E

LEVEL = 'model_checking'
ASSUMPTIONS = [
    'alphabet: owner o with studies {s, missing}, plus a multi-study plan (owners o and p with the same study id; ids differing only by a SQL LIKE wildcard or by case) on a reduced RPC alphabet; 1 DOUBLE parameter, 1 MAXIMIZE metric, clients {a,b}, scripted exact-delivery algorithm',
    'timestamps are not compared; error messages are not compared (only the error class)',
    'protobuf/upb runtime, SQLite, SQLAlchemy and the pure-python proto compiler (vfw/miniprotoc) are trusted',
]

_SYS = {}


def actions(sysm):
  """Enabled transitions in the current state (structural bounds applied)."""
  cfg = sysm.cfg
  canon = sysm.canons()[0]
  acts = []
  st = lifecycle.study_of(canon, 's')
  ts = lifecycle.trials_of(canon, 's') or []
  ids = [int(t['id']) for t in ts]
  targets = ids + [9]
  A = acts.append
  A(('CreateStudy', 's'))
  A(('GetStudy', 's'))
  A(('ListStudies',))
  A(('DeleteStudy', 's'))
  A(('ListTrials', 's'))
  A(('ListOptimalTrials', 's'))
  if st is None:
    # calls on a missing study: one representative per RPC kind
    A(('CreateStudyNamed', 's'))
    A(('CreateStudyNoDisplay',))
    A(('SetStudyState', 's', 'INACTIVE'))
    A(('CreateTrial', 's', 'requested', 0.25))
    A(('SuggestTrials', 's', 'a', 1))
    A(('GetTrial', 's', 1))
    A(('AddTrialMeasurement', 's', 1, 0.5))
    A(('CompleteTrial', 's', 1, 'final'))
    A(('StopTrial', 's', 1))
    A(('DeleteTrial', 's', 1))
    A(('CheckTrialEarlyStoppingState', 's', 1))
    A(('UpdateMetadata', 's', ((None, '', 'k', 'v'),)))
    return acts
  for stt in ('ACTIVE', 'INACTIVE', 'COMPLETED'):
    A(('SetStudyState', 's', stt))
  room = cfg['max_trials'] - len(ts)
  max_id_ok = (max(ids) if ids else 0) < cfg.get('max_id', 6)
  mutable_study = st['state'] in ('ACTIVE', 'STATE_UNSPECIFIED')
  for kind in ('requested', 'succeeded', 'infeasible'):
    if (room >= 1 and max_id_ok) or not mutable_study:
      A(('CreateTrial', 's', kind, 0.25))
    else:
      sysm.pruned += 1
  for c in cfg.get('clients', ('a', 'b')):
    for n in cfg.get('counts', (1, 2)):
      own = len([t for t in ts if t['state'] == 'ACTIVE' and t['client'] == c])
      req = len([t for t in ts if t['state'] == 'REQUESTED'])
      new = max(0, n - own - req)
      nops = 0
      for s_, c_, ops in dict(canon)['ops']:
        if s_ == 's' and c_ == c:
          nops = len(ops)
      if ((new <= room and max_id_ok) and nops < cfg.get('max_ops', 3)) or not mutable_study:
        A(('SuggestTrials', 's', c, n))
      else:
        sysm.pruned += 1
  for i in targets:
    A(('GetTrial', 's', i))
    t = [t for t in ts if t['id'] == str(i)]
    nmeas = len(t[0]['meas']) if t else 0
    if nmeas < cfg.get('max_meas', 1) or not mutable_study or (t and t[0]['state'] not in ('ACTIVE', 'STOPPING')):
      A(('AddTrialMeasurement', 's', i, 0.5))
    else:
      sysm.pruned += 1
    for mode in cfg.get('modes', ('final', 'none', 'infeasible', 'infeasible-noreason', 'infeasible+final')):
      A(('CompleteTrial', 's', i, mode))
    A(('StopTrial', 's', i))
    A(('DeleteTrial', 's', i))
    for ans in (False, True):
      A(('CheckTrialEarlyStoppingState', 's', i, E(stop_answer=ans)))
  if dict(canon)['es']:
    A(('Tick',))
  mdn = len(st['md']) + sum(len(t['md']) for t in ts)
  for delta in ([(None, '', 'k', 'v')], [(ids[0] if ids else 9, '', 'k', 'v')], [(None, '', 'k', 'w'), (9, '', 'k', 'v')]):
    A(('UpdateMetadata', 's', tuple(delta)))
  if ids:
    # one update for the study and for every existing trial (several rows written by one call)
    A(('UpdateMetadata', 's', tuple([(None, '', 'k2', 'u')] + [(i, '', 'k2', 'u') for i in ids])))
  if cfg.get('switch'):
    A(('Switch',))      # the next calls go to the other of two live server objects on the same stored data
  return acts


# two live servers A and B on one SQLite file: B has served (and may remember) the study, then A writes, then B serves again
_S1 = [('CreateStudy', 's'), ('SuggestTrials', 's', 'a', 1), ('Switch',), ('ListTrials', 's'), ('GetStudy', 's'), ('GetTrial', 's', 1), ('Switch',)]
AFTER_DELETE_START = [('CreateStudy', 's'), ('CreateTrial', 's', 'requested', 0.25), ('SuggestTrials', 's', 'a', 2), ('ListTrials', 's'), ('SetStudyState', 's', 'INACTIVE'), ('DeleteStudy', 's')]
TWO_SERVER_STARTS = [_S1,
                     _S1 + [('CompleteTrial', 's', 1, 'final'), ('Switch',)],
                     _S1 + [('UpdateMetadata', 's', ((None, '', 'k', 'v'), (1, '', 'k', 'v'))), ('AddTrialMeasurement', 's', 1, 0.5), ('Switch',)],
                     _S1 + [('SetStudyState', 's', 'INACTIVE'), ('Switch',)],
                     _S1 + [('DeleteTrial', 's', 1), ('CreateTrial', 's', 'requested', 0.25), ('Switch',)]]


def system(cfg):
  k = repr(sorted(cfg.items()))
  if k not in _SYS:
    if cfg.get('multi'):
      from props import c07
      _SYS[k] = lifecycle.ServiceSystem('C01', cfg, c07.multi_actions)
    else:
      _SYS[k] = lifecycle.ServiceSystem('C01', cfg, actions)
  return _SYS[k]


def expand(task):
  return statespace.expand_paths(system(task['cfg']), task['paths'])


def large_shard(task):
  """One long history on a study with more than a hundred trials against the reference model (listing, hand-out, optimal trials,
  metadata, deletion on a study whose ids have one, two and three digits)."""
  cfg = {'backends': [task['backend']], 'max_trials': 400, 'max_meas': 1, 'max_ops': 4, 'max_id': 125}
  sysm = system(cfg)
  sysm.reset()
  path = [('CreateStudy', 's')]
  for i in range(1, 106):
    path.append(('CreateTrial', 's', 'succeeded' if i % 3 else 'requested', round(0.001 * i, 6)))
  path += [('ListTrials', 's'), ('SuggestTrials', 's', 'a', 2), ('ListOptimalTrials', 's'), ('SuggestTrials', 's', 'b', 40), ('ListTrials', 's'),
           ('CompleteTrial', 's', 3, 'final'), ('DeleteTrial', 's', 50), ('SuggestTrials', 's', 'a', 3), ('UpdateMetadata', 's', ((None, '', 'k', 'v'), (104, '', 'k', 'v'))),
           ('GetTrial', 's', 104), ('ListTrials', 's')]
  vios, done = [], 0
  for a in path:
    for v in sysm.apply(a):
      v = dict(v)
      v['sig'] += '|large-study'
      v['case'] = {'large': True, 'backend': task['backend']}
      vios.append(v)
    done += 1
    if vios:
      break
  return {'n': done, 'violations': vios[:5]}


def run(ctx):
  if ctx.quick:
    plans = [({'backends': ['ram'], 'max_trials': 2, 'max_meas': 1, 'max_ops': 2, 'max_id': 3, 'modes': ('final', 'none', 'infeasible', 'infeasible+final')}, 5),
             # "used, then deleted": same stored data as "never existed" (merged by the BFS), but a server may remember
             ({'backends': ['sqlmem'], 'fresh_backends': True, 'max_trials': 2, 'max_meas': 1, 'max_ops': 2, 'max_id': 3, 'starts': [AFTER_DELETE_START, AFTER_DELETE_START[:2] + AFTER_DELETE_START[-1:]]}, 0),
             ({'backends': ['ram'], 'fresh_backends': True, 'max_trials': 2, 'max_meas': 1, 'max_ops': 2, 'max_id': 3, 'starts': [AFTER_DELETE_START, AFTER_DELETE_START[:2] + AFTER_DELETE_START[-1:]]}, 0),
             ({'backends': ['sqlmem'], 'max_trials': 2, 'max_meas': 1, 'max_ops': 2, 'max_id': 3}, 3),
             # several studies at once (same id under two owners, ids differing by a LIKE wildcard): reduced alphabet, against the model
             ({'backends': ['sqlmem'], 'multi': True, 'studies': ('s_1', 'sx1', 'p@s_1'), 'max_trials': 1, 'max_id': 2, 'clients': ('a',)}, 5),
             ({'backends': ['ram'], 'multi': True, 'studies': ('s_1', 'sx1', 'p@s_1'), 'max_trials': 1, 'max_id': 2, 'clients': ('a',)}, 5),
             # two live servers on one SQLite file, each of which has already served the study; replay-only on fresh objects
             ({'backends': ['sqlfile'], 'switch': True, 'fresh_backends': True, 'max_trials': 1, 'max_meas': 1, 'max_ops': 2, 'max_id': 2,
               'starts': TWO_SERVER_STARTS}, 0)]
  else:
    plans = [({'backends': ['ram'], 'max_trials': 3, 'max_meas': 2, 'max_ops': 3, 'max_id': 5}, 7),
             ({'backends': ['sqlmem'], 'max_trials': 2, 'max_meas': 1, 'max_ops': 2, 'max_id': 4}, 5),
             ({'backends': ['sqlfile'], 'max_trials': 2, 'max_meas': 1, 'max_ops': 2, 'max_id': 3}, 4),
             ({'backends': ['sqlmem'], 'multi': True, 'studies': ('s_1', 'sx1', 'p@s_1', 'p@S_1'), 'max_trials': 2, 'max_id': 3, 'clients': ('a',)}, 6),
             ({'backends': ['ram'], 'multi': True, 'studies': ('s_1', 'sx1', 'p@s_1', 'p@S_1'), 'max_trials': 2, 'max_id': 3, 'clients': ('a',)}, 6),
             ({'backends': ['sqlfile'], 'switch': True, 'fresh_backends': True, 'max_trials': 2, 'max_meas': 1, 'max_ops': 2, 'max_id': 3,
               'starts': [[('CreateStudy', 's'), ('SuggestTrials', 's', 'a', 1), ('Switch',), ('ListTrials', 's'), ('GetStudy', 's'), ('Switch',)]]}, 4)]
  # the small targeted plans first: when the wall-clock budget runs out (loaded machine, or a change that forces the slow
  # replay-only mode) it is the tail of the big general plan that is cut, not a whole scenario family
  plans.sort(key=lambda pd: 0 if (pd[0].get('starts') or pd[0].get('fresh_backends') or pd[0].get('multi')) else 1)
  cov = {'states': 0, 'transitions': 0, 'traces_validated_against_impl': 0, 'samples': [], 'runs': [], 'exhaustive': True}
  for cfg, depth in plans:
    cfg = dict(cfg)
    starts = cfg.pop('starts', None)
    s = statespace.Search(ctx, 'expand', depth, cfg, starts=starts)
    import time as _time
    _t0 = _time.time()
    fp = s.run()
    c = s.coverage(fp)
    c['wall_s'] = round(_time.time() - _t0, 1)
    if c['snapshot_vs_replay_mismatches']:
      from vfw.runner import HarnessError
      raise HarnessError('snapshot/replay mismatch in %s' % cfg)
    cov['states'] += c['states']
    cov['transitions'] += c['transitions']
    cov['traces_validated_against_impl'] += c['traces_validated_against_impl']
    cov['samples'] += c.pop('samples')[:3]
    cov['exhaustive'] = cov['exhaustive'] and c['exhaustive']
    c['cfg'] = cfg
    cov['runs'].append(c)
  cov['bound'] = 'BFS to the stated depth per backend inside structural bounds (max_trials, max_meas, max_ops, max_id); see runs[]'
  for r in ctx.pmap('large_shard', [{'backend': 'ram'}, {'backend': 'sqlmem'}]):
    cov['transitions'] += r['n']
    cov['traces_validated_against_impl'] += r['n']
    cov['large_study_steps'] = cov.get('large_study_steps', 0) + r['n']
    ctx.extend(r['violations'])
  return cov


def replay(case, ctx):
  if case.get('large'):
    return large_shard({'backend': case['backend']})['violations']
  sysm = system(case['cfg'])
  sysm.reset()
  for a in case['path']:
    sysm.apply(_t(a))
  return sysm.apply(_t(case['action']))


def _t(a):
  """JSON lists back to the tuple form of actions."""
  if isinstance(a, list):
    return tuple(_t(x) for x in a)
  return a
