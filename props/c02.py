"""C02 Suggest hand-out: BFS over suggest/complete/request/add/delete/stop histories with the algorithm's
delivery (exact, short, surplus, nothing) chosen by the explorer; oracle = reference model of SuggestTrials."""
from props import c01
from vfw import lifecycle, statespace
from vfw.lifecycle import E

LEVEL = 'model_checking'
ASSUMPTIONS = [
    'alphabet: clients {a,b}, counts {1,2,3}, algorithm delivery in {N, N-1, N+1, N+2, 0} as an environment answer per call; plus a plan with two studies whose ids differ only by a SQL LIKE wildcard, one worker suggesting in both',
    'which REQUESTED trial is handed out and which suggestion gets which fresh id is left open by the documentation: the model adopts the implementation\'s choice and checks the constraints',
]
_SYS = {}
DELIVERIES = (E(), E(delta=-1), E(delta=1), E(delta=2), E(deliver_zero=True))


def actions(sysm):
  cfg = sysm.cfg
  canon = sysm.canons()[0]
  st = lifecycle.study_of(canon, 's')
  if st is None:
    return [('CreateStudy', 's')]
  ts = lifecycle.trials_of(canon, 's') or []
  ids = [int(t['id']) for t in ts]
  room = cfg['max_trials'] - len(ts)
  acts = [('ListTrials', 's')]
  nops = {c: 0 for c in ('a', 'b')}
  for s_, c_, ops in dict(canon)['ops']:
    if s_ == 's':
      nops[c_] = len(ops)
  for c in ('a', 'b'):
    own = len([t for t in ts if t['state'] == 'ACTIVE' and t['client'] == c])
    req = len([t for t in ts if t['state'] == 'REQUESTED'])
    for n in cfg['counts']:
      need_new = max(0, n - own - req)
      if nops[c] >= cfg['max_ops']:
        sysm.pruned += 1
        continue
      if need_new == 0:
        acts.append(('SuggestTrials', 's', c, n))
        continue
      for env in DELIVERIES:
        e = dict(env[1:])
        k = 0 if e.get('deliver_zero') else max(0, need_new + e.get('delta', 0))
        if k <= room:
          acts.append(('SuggestTrials', 's', c, n) + ((env,) if len(env) > 1 else ()))
        else:
          sysm.pruned += 1
  if room >= 1:
    acts.append(('CreateTrial', 's', 'requested', 0.25))
    acts.append(('CreateTrial', 's', 'succeeded', 0.75))
  else:
    sysm.pruned += 2
  for i in ids:
    acts.append(('CompleteTrial', 's', i, 'final'))
    acts.append(('DeleteTrial', 's', i))
    acts.append(('StopTrial', 's', i))
  if cfg.get('switch'):
    acts.append(('Switch',))     # the next calls are served by the other of two live server objects on the same stored data
  return acts


def multi_actions(sysm):
  """Two studies whose names differ only where one has a SQL LIKE wildcard: the same worker suggests in both, so a
  hand-out that looks at the sibling study's ACTIVE / REQUESTED trials shows as a wrong count or a foreign trial."""
  cfg = sysm.cfg
  canon = sysm.canons()[0]
  acts = []
  for s in cfg['studies']:
    st = lifecycle.study_of(canon, s)
    if st is None:
      acts.append(('CreateStudy', s))
      continue
    ts = lifecycle.trials_of(canon, s) or []
    room = cfg['max_trials'] - len(ts)
    nops = 0
    for s_, c_, ops in dict(canon)['ops']:
      if s_ == s and c_ == 'a':
        nops = len(ops)
    own = len([t for t in ts if t['state'] == 'ACTIVE' and t['client'] == 'a'])
    req = len([t for t in ts if t['state'] == 'REQUESTED'])
    for n in cfg['counts']:
      if nops < cfg['max_ops'] and max(0, n - own - req) <= room:
        acts.append(('SuggestTrials', s, 'a', n))
      else:
        sysm.pruned += 1
    if room >= 1:
      acts.append(('CreateTrial', s, 'requested', 0.25))
    else:
      sysm.pruned += 1
    for t in ts[:1]:
      acts.append(('CompleteTrial', s, int(t['id']), 'final'))
    acts.append(('ListTrials', s))
  return acts


def system(cfg):
  k = repr(sorted(cfg.items()))
  if k not in _SYS:
    _SYS[k] = lifecycle.ServiceSystem('C02', cfg, multi_actions if cfg.get('multi') else actions)
  return _SYS[k]


def expand(task):
  return statespace.expand_paths(system(task['cfg']), task['paths'])


def large_shard(task):
  """Hand-out on a study whose trial ids have one and two (and three) digits, against the reference model on RAM and SQLite in
  lock-step: a worker that holds more trials than it asks for, across the 9 / 10 (and 99 / 100) boundary."""
  cfg = {'backends': ['ram', 'sqlmem'], 'max_trials': 400, 'max_ops': 12, 'counts': (1, 2, 3), 'max_id': 125}
  sysm = system(cfg)
  sysm.reset()
  path = [('CreateStudy', 's')] + [('CreateTrial', 's', 'succeeded', round(0.01 * i, 6)) for i in range(1, 8)]
  path += [('SuggestTrials', 's', 'a', 2), ('SuggestTrials', 's', 'a', 3), ('SuggestTrials', 's', 'a', 2), ('SuggestTrials', 's', 'a', 1), ('ListTrials', 's'),
           ('SuggestTrials', 's', 'b', 2), ('CompleteTrial', 's', 9, 'final'), ('SuggestTrials', 's', 'a', 2), ('SuggestTrials', 's', 'b', 1)]
  path += [('CreateTrial', 's', 'succeeded', round(0.001 * i, 6)) for i in range(1, 88)]
  path += [('SuggestTrials', 's', 'c', 3), ('SuggestTrials', 's', 'c', 2), ('SuggestTrials', 's', 'c', 1), ('CreateTrial', 's', 'requested', 0.5), ('SuggestTrials', 's', 'c', 3), ('ListTrials', 's')]
  vios, done = [], 0
  for a in path:
    for v in sysm.apply(a):
      v = dict(v)
      v['sig'] += '|large-study'
      v['case'] = {'large': True}
      vios.append(v)
    done += 1
    if vios:
      break
  return {'n': done, 'violations': vios[:5]}


def run(ctx):
  if ctx.quick:
    plans = [({'backends': ['ram'], 'max_trials': 4, 'max_ops': 3, 'counts': (1, 2, 3), 'max_id': 7}, 4),
             ({'backends': ['ram', 'sqlmem'], 'max_trials': 3, 'max_ops': 2, 'counts': (1, 2), 'max_id': 6}, 4),
             ({'backends': ['ram', 'sqlmem'], 'multi': True, 'studies': ('s_1', 'sx1'), 'clients': ('a',), 'max_trials': 2, 'max_ops': 2, 'counts': (1, 2), 'max_id': 3}, 6),
             # two live servers on one SQLite file (what two worker processes with the default local client are), replay-only
             ({'backends': ['sqlfile'], 'switch': True, 'fresh_backends': True, 'max_trials': 2, 'max_ops': 3, 'counts': (1,), 'max_id': 3,
               'starts': [[('CreateStudy', 's'), ('SuggestTrials', 's', 'a', 1), ('Switch',), ('SuggestTrials', 's', 'a', 1), ('Switch',)]]}, 3)]
  else:
    plans = [({'backends': ['ram'], 'max_trials': 5, 'max_ops': 4, 'counts': (1, 2, 3), 'max_id': 9}, 7),
             ({'backends': ['ram', 'sqlmem', 'sqlfile'], 'max_trials': 4, 'max_ops': 3, 'counts': (1, 2, 3), 'max_id': 7}, 5),
             ({'backends': ['ram', 'sqlmem', 'sqlfile'], 'multi': True, 'studies': ('s_1', 'sx1', 'S%', 's1'), 'clients': ('a',), 'max_trials': 2, 'max_ops': 2, 'counts': (1, 2), 'max_id': 3}, 7),
             ({'backends': ['sqlfile'], 'switch': True, 'fresh_backends': True, 'max_trials': 3, 'max_ops': 4, 'counts': (1, 2), 'max_id': 4,
               'starts': [[('CreateStudy', 's'), ('SuggestTrials', 's', 'a', 1), ('Switch',), ('SuggestTrials', 's', 'a', 1), ('Switch',)]]}, 4)]
  # the small targeted plans first: when the wall-clock budget runs out (loaded machine, or a change that forces the slow
  # replay-only mode) it is the tail of the big general plan that is cut, not a whole scenario family
  plans.sort(key=lambda pd: 0 if (pd[0].get('starts') or pd[0].get('fresh_backends') or pd[0].get('multi')) else 1)
  cov = {'states': 0, 'transitions': 0, 'traces_validated_against_impl': 0, 'samples': [], 'runs': [], 'exhaustive': True}
  for cfg, depth in plans:
    cfg = dict(cfg)
    starts = cfg.pop('starts', None)
    s = statespace.Search(ctx, 'expand', depth, cfg, chunk=16, starts=starts)
    import time as _time
    _t0 = _time.time()
    fp = s.run()
    c = s.coverage(fp)
    c['wall_s'] = round(_time.time() - _t0, 1)
    if c['snapshot_vs_replay_mismatches']:
      from vfw.runner import HarnessError
      raise HarnessError('snapshot/replay mismatch in %s' % cfg)
    for k in ('states', 'transitions', 'traces_validated_against_impl'):
      cov[k] += c[k]
    cov['samples'] += c.pop('samples')[:4]
    cov['exhaustive'] = cov['exhaustive'] and c['exhaustive']
    c['cfg'] = cfg
    cov['runs'].append(c)
  for r in ctx.pmap('large_shard', [{}]):
    cov['transitions'] += r['n']
    cov['traces_validated_against_impl'] += r['n']
    cov['large_study_steps'] = r['n']
    ctx.extend(r['violations'])
  return cov


def replay(case, ctx):
  if case.get('large'):
    return large_shard({})['violations']
  sysm = system(case['cfg'])
  sysm.reset()
  for a in case['path']:
    sysm.apply(c01._t(a))
  return sysm.apply(c01._t(case['action']))
