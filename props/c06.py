"""C06 failing algorithm: BFS where each SuggestTrials / CheckTrialEarlyStoppingState transition carries a
scripted fault (exception type, construction failure, short/surplus/zero delivery, metadata for a missing
trial), followed by every continuation by the same and by another worker."""
from props import c01
from vfw import lifecycle, statespace
from vfw.lifecycle import E

LEVEL = 'fault_enumeration'
ASSUMPTIONS = [
    'in-process Pythia (PythiaServicer with a scripted PolicyFactory, the public seam DefaultVizierServer uses) for the state-space search; the same faults are replayed on loopback gRPC deployments (DefaultVizierServer, DistributedPythiaVizierServer) on fixed short histories',
    'fault alphabet: ValueError / RuntimeError / KeyError / custom Exception subclass raised by suggest or early_stop, failure at policy construction, delivery 0 / N-1 / N / N+2, metadata naming a missing trial',
    'a failure may be reported either as a done operation with error or as an error status; both are accepted',
]
_SYS = {}
EXCS = ('ValueError', 'RuntimeError', 'KeyError', 'ScriptedError')


def suggest_envs(quick):
  out = [E()]
  for x in (EXCS[:2] if quick else EXCS):
    out.append(E(fail_suggest=x))
  out.append(E(fail_suggest='ScriptedError') if quick else E(fail_factory='TypeError'))
  out.append(E(fail_factory='ValueError'))
  out.append(E(fail_suggest='LoadTooLargeError'))      # "try again later": still a failure of this call
  out += [E(deliver_zero=True), E(delta=-1), E(delta=2), E(md_trials=((9, (), 'k', 'v'),))]
  return out


def stop_envs(quick):
  out = [E(), E(stop_answer=True)]
  for x in (('RuntimeError', 'KeyError') if quick else EXCS):
    out.append(E(fail_stop=x))
  out.append(E(fail_factory='ValueError'))
  out.append(E(fail_stop='LoadTooLargeError'))
  out.append(E(md_trials=((9, (), 'k', 'v'),)))
  return out


def actions(sysm):
  cfg = sysm.cfg
  canon = sysm.canons()[0]
  st = lifecycle.study_of(canon, 's')
  if st is None:
    return [('CreateStudy', 's')]
  ts = lifecycle.trials_of(canon, 's') or []
  ids = [int(t['id']) for t in ts]
  room = cfg['max_trials'] - len(ts)
  acts = []
  nops = {c: 0 for c in ('a', 'b')}
  for s_, c_, ops in dict(canon)['ops']:
    if s_ == 's':
      nops[c_] = len(ops)
  for c in ('a', 'b'):
    own = len([t for t in ts if t['state'] == 'ACTIVE' and t['client'] == c])
    req = len([t for t in ts if t['state'] == 'REQUESTED'])
    for n in cfg['counts']:
      need_new = max(0, n - own - req)
      if nops[c] >= cfg['max_ops']:
        sysm.pruned += 1
        continue
      if need_new == 0:
        acts.append(('SuggestTrials', 's', c, n))
        continue
      for env in suggest_envs(cfg['quick']):
        e = dict(env[1:])
        k = 0 if (e.get('deliver_zero') or e.get('fail_suggest') or e.get('fail_factory')) else max(0, need_new + e.get('delta', 0))
        if k <= room:
          acts.append(('SuggestTrials', 's', c, n) + ((env,) if len(env) > 1 else ()))
        else:
          sysm.pruned += 1
      acts.append(('GetOperation', 's', c, max(1, nops[c])))
  if room >= 1:
    acts.append(('CreateTrial', 's', 'requested', 0.25))
  for i in ids:
    acts.append(('CompleteTrial', 's', i, 'final'))
    for env in stop_envs(cfg['quick']):
      acts.append(('CheckTrialEarlyStoppingState', 's', i) + ((env,) if len(env) > 1 else ()))
  if dict(canon)['es']:
    acts.append(('Tick',))
  return acts


def system(cfg):
  k = repr(sorted(cfg.items()))
  if k not in _SYS:
    _SYS[k] = lifecycle.ServiceSystem('C06', cfg, actions)
  return _SYS[k]


def expand(task):
  return statespace.expand_paths(system(task['cfg']), task['paths'])


def remote_shard(task):
  """The same faults through a gRPC server and through a gRPC server with a separate Pythia server: the failing
  call must be reported, nothing may stay unfinished, and the next call must reach the algorithm and succeed."""
  from props import c08
  from vfw import lifecycle, svc
  from vizier._src.service import study_pb2
  svc.install_clock()
  vios, n = {}, 0
  for mode, db in task['deployments']:
    dep = c08.deployments([(mode, db)])[0]
    for prefix in ([], [('add_trial', 'in')], [('suggest', 1, 'a')]):
      for fault in task['faults']:
        for target in ('suggest', 'check_early_stopping'):
          if target == 'check_early_stopping' and not any(k in fault for k in ('fail_stop', 'fail_factory')):
            continue
          if target == 'suggest' and 'fail_stop' in fault:
            continue
          n += 1
          dep = c08.deployments([(mode, db)])[0]     # rebuilt if the previous scenario wedged its server
          dep.reset()
          dep.env.__init__()
          dep.servicer.CreateStudy(svc.vs.CreateStudyRequest(parent=svc.OWNER, study=study_pb2.Study(display_name='s', study_spec=svc.spec())))
          for op in prefix:
            c08.run_op(dep, op)
          if target == 'check_early_stopping':
            c08.run_op(dep, ('suggest', 1, 'a'))
          calls0 = dep.env.suggest_calls + dep.env.stop_calls + dep.env.factory_calls
          pol0, fac0 = dep.env.suggest_calls + dep.env.stop_calls, dep.env.factory_calls
          dep.env.reset()
          for k, v in fault.items():
            setattr(dep.env, k, v)
          failing = ('suggest', 2, 'a') if target == 'suggest' else ('check_early_stopping', 1)
          o1 = c08.run_op(dep, failing)
          held = svc.held_locks(dep.servicer)
          invoked1 = max(dep.env.suggest_calls + dep.env.stop_calls - pol0, dep.env.factory_calls - fac0)   # policy built / policy asked
          reached1 = (dep.env.suggest_calls + dep.env.stop_calls + dep.env.factory_calls) > calls0
          dep.env.reset()
          calls1 = dep.env.suggest_calls + dep.env.stop_calls + dep.env.factory_calls
          svc.CLOCK.now += 10 ** 6     # past any recycle period
          o2 = c08.run_op(dep, failing)
          reached2 = (dep.env.suggest_calls + dep.env.stop_calls + dep.env.factory_calls) > calls1
          svc.CLOCK.now -= 10 ** 6
          state = svc.canon_state(dep.servicer.datastore, ('s',), ('a', 'b', 'unused'), 6, svc.CLOCK.now, 10 ** 9)
          who = '%s/%s' % (mode, db)
          fk = ','.join('%s=%s' % kv for kv in sorted(fault.items()))

          def V(clause, text):
            sig = 'C06|remote:%s|%s|%s|%s' % (clause, target, '+'.join(sorted(fault)), mode)
            vios.setdefault(sig, {'sig': sig, 'desc': '[%s] prefix %s fault %s: %s' % (who, prefix, fk, text), 'case': {'remote': True}})
          if invoked1 > 1:
            V('algorithm-invoked-more-than-once', 'one %s request invoked the algorithm %d times (the failure was %s)' % (target, invoked1, 'reported' if o1[0] == 'exc' else 'NOT reported: ' + str(o1)[:80]))
          if held:
            V('lock-held-after-failure', 'the failing %s returned %s and left %s held' % (target, str(o1)[:80], ', '.join(held)))
          if reached1 and o1[0] != 'exc':
            V('failure-not-reported', 'the failing %s returned %s' % (target, str(o1)[:120]))
          if o2[0] != 'ok':
            V('later-call-fails', 'the next %s (algorithm healthy again) gives %s' % (target, o2))
          elif not reached2 and target == 'suggest':
            V('later-call-does-not-reach-algorithm', 'the next suggest was answered without consulting the algorithm: %s' % (str(o2)[:120],))
          for clause, text in lifecycle.invariants(state):
            V('invariant:' + clause, text)
  return {'n': n, 'violations': list(vios.values())}


def run(ctx):
  if ctx.quick:
    plans = [({'backends': ['ram'], 'max_trials': 3, 'max_ops': 3, 'counts': (1, 2), 'max_id': 5, 'quick': True}, 4),
             ({'backends': ['sqlmem'], 'max_trials': 2, 'max_ops': 2, 'counts': (1, 2), 'max_id': 4, 'quick': True}, 3)]
  else:
    plans = [({'backends': ['ram'], 'max_trials': 3, 'max_ops': 4, 'counts': (1, 2), 'max_id': 6, 'quick': False}, 6),
             ({'backends': ['sqlmem'], 'max_trials': 3, 'max_ops': 3, 'counts': (1, 2), 'max_id': 5, 'quick': False}, 4)]
  cov = {'states': 0, 'transitions': 0, 'traces_validated_against_impl': 0, 'samples': [], 'runs': [], 'exhaustive': True}
  faulty = 0
  for cfg, depth in plans:
    s = statespace.Search(ctx, 'expand', depth, cfg, chunk=16)
    fp = s.run()
    c = s.coverage(fp)
    if c['snapshot_vs_replay_mismatches']:
      from vfw.runner import HarnessError
      raise HarnessError('snapshot/replay mismatch in %s' % cfg)
    for k in ('states', 'transitions', 'traces_validated_against_impl'):
      cov[k] += c[k]
    cov['samples'] += c.pop('samples')[:4]
    cov['exhaustive'] = cov['exhaustive'] and c['exhaustive']
    c['cfg'] = cfg
    cov['runs'].append(c)
  faults = [{'fail_suggest': 'RuntimeError'}, {'fail_suggest': 'KeyError'}, {'fail_factory': 'ValueError'}, {'fail_stop': 'RuntimeError'}, {'fail_stop': 'ScriptedError'},
            {'fail_suggest': 'RuntimeError', 'fail_once': True}, {'fail_stop': 'RuntimeError', 'fail_once': True},       # transient: the first invocation only
            {'fail_suggest': 'LoadTooLargeError'}, {'fail_stop': 'LoadTooLargeError'}, {'fail_suggest': 'TemporaryPythiaError'}, {'fail_suggest': 'CancelComputeError'},
            {'fail_stop': 'PythiaProtocolError'}, {'fail_factory': 'VizierDatabaseError'},      # the error classes of the algorithm interface
            {'fail_factory': 'AssertionError', 'fail_bare': True}, {'fail_suggest': 'NotImplementedError', 'fail_bare': True}, {'fail_stop': 'KeyError', 'fail_bare': True}]   # no message
  rdeps = [('local', 'ram'), ('grpc', 'ram'), ('pythia', 'ram')] if ctx.quick else [('local', 'ram'), ('grpc', 'ram'), ('pythia', 'ram'), ('local', 'sql'), ('grpc', 'sql'), ('pythia', 'sql')]
  rn = 0
  for r in ctx.pmap('remote_shard', [{'deployments': [d], 'faults': faults} for d in rdeps]):
    rn += r['n']
    ctx.extend(r['violations'])
  cov['remote_fault_scenarios'] = rn
  cov['transitions'] += rn
  cov['traces_validated_against_impl'] += rn
  # exploration-style keys required for the fault_enumeration level
  cov['evaluations'] = cov['transitions']
  cov['distinct_nontrivial'] = cov['states']
  cov['rule'] = ('every transition is one RPC on the real servicer with one scripted environment answer; a case is distinct when it '
                 'leads to a distinct canonical stored state (studies, trials, operations); non-trivial = reachable state other than the empty one')
  return cov


def replay(case, ctx):
  sysm = system(case['cfg'])
  sysm.reset()
  for a in case['path']:
    sysm.apply(c01._t(a))
  return sysm.apply(c01._t(case['action']))
