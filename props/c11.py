"""C11 optimal trials = exactly the non-dominated completed trials.

(P) every ordered point set up to the stated size on a small grid (plus +-inf and float64-tie variants) through
    every Pareto routine and parameter (naive, fast with all thresholds, Jax, is_frontier shards, get_frontier,
    both pareto ranks, is_pareto_optimal_against strict/non-strict), against the brute-force definition;
(S) every study history of <= n trials over a status/value alphabet through ListOptimalTrials (RAM and SQLite);
(G) the same histories through InRamPolicySupporter.GetBestTrials(count).
"""
import itertools

import numpy as np

LEVEL = 'exploration'
ASSUMPTIONS = [
    'point alphabet: grid {0,1,2}^d (d<=4), {-inf,1,+inf}^2, {0,1,1+1e-12}^2; ordered sequences (order matters to the divide-and-conquer and sharded routines)',
    'jax routines are run with jax_enable_x64=True, as the service configures it (PythiaServicer); NaN is only enumerated at study level',
    'safety metrics: SafetyChecker on all reading combinations of 1-2 safety metrics, and GetBestTrials with one safety metric (unsafe = beyond the threshold or NaN -> worst objective values; no reading = safe, as documented)',
]


# ---- brute-force definitions ---------------------------------------------------------------------
def bf_optimal(P):
  n = len(P)
  out = np.ones(n, dtype=bool)
  for i in range(n):
    for j in range(n):
      if np.all(P[j] >= P[i]) and np.any(P[j] > P[i]):
        out[i] = False
        break
  return out


def bf_rank(P):
  n = len(P)
  return np.array([sum(1 for j in range(n) if np.all(P[j] >= P[i]) and np.any(P[j] > P[i])) for i in range(n)])


def bf_against(P, A, strict):
  out = np.ones(len(P), dtype=bool)
  for i in range(len(P)):
    for a in A:
      if np.all(a >= P[i]) and (np.any(a > P[i]) or not strict):
        out[i] = False
        break
  return out


def _grid(alpha, d):
  return [tuple(p) for p in itertools.product(alpha, repeat=d)]


def point_sets(alpha, d, kmax, first=None):
  pts = _grid(alpha, d)
  for k in range(1, kmax + 1):
    for seq in itertools.product(pts, repeat=k):
      if first is not None and seq[0] != first:
        continue
      yield np.array(seq, dtype=np.float64)


def _tag(P):
  return 'n=%d,d=%d' % P.shape


def points_shard(task):
  """All sequences starting with task['first'] through the numpy routines (and jax ones when task['jax'])."""
  from vizier._src.pyvizier.multimetric import pareto_optimal as po
  alpha, d, kmax, first = task['alpha'], task['d'], task['kmax'], tuple(task['first'])
  naive = po.NaiveParetoOptimalAlgorithm()
  fasts = {t: po.FastParetoOptimalAlgorithm(recursive_threshold=t) for t in task['thresholds']}
  jx = None
  if task['jax']:
    import jax
    jax.config.update('jax_enable_x64', True)
    from vizier._src.jax import xla_pareto
    from vizier._src.algorithms.evolution import nsga2
    jx = xla_pareto
    fastjax = po.FastParetoOptimalAlgorithm(xla_pareto.JaxParetoOptimalAlgorithm(), recursive_threshold=2)
  n = nontriv = 0
  vios = {}

  def V(routine, P, got, want, extra=''):
    sig = 'C11|points|%s' % routine
    if sig not in vios:
      vios[sig] = {'sig': sig, 'desc': '%s%s on %s gives %s, definition gives %s' % (routine, extra, P.tolist(), list(map(int, got)) if got is not None else None, list(map(int, want))),
                   'case': {'part': 'P', 'routine': routine, 'points': P.tolist(), 'extra': extra}}

  for P in point_sets(alpha, d, kmax, first):
    n += 1
    want = bf_optimal(P)
    if not want.all():
      nontriv += 1
    try:
      got = np.asarray(naive.is_pareto_optimal(P)).reshape(-1)
      if not np.array_equal(got, want):
        V('Naive.is_pareto_optimal', P, got, want)
    except Exception as e:  # pylint: disable=broad-except
      V('Naive.is_pareto_optimal:raises', P, None, want, repr(e)[:80])
    for t, f in fasts.items():
      try:
        got = np.asarray(f.is_pareto_optimal(P)).reshape(-1)
        if got.shape != want.shape or not np.array_equal(got, want):
          V('Fast(threshold=%s).is_pareto_optimal' % ('small' if t < 100 else 'default'), P, got, want, ' threshold=%d' % t)
      except Exception as e:  # pylint: disable=broad-except
        V('Fast.is_pareto_optimal:raises', P, None, want, ' threshold=%d %s' % (t, repr(e)[:80]))
    if jx is not None:
      for ns in task['shards']:
        try:
          got = np.asarray(jx.is_frontier(P, num_shards=ns)).reshape(-1)
          if not np.array_equal(got, want):
            V('is_frontier(num_shards=%d)' % ns, P, got, want)
        except Exception as e:  # pylint: disable=broad-except
          V('is_frontier:raises', P, None, want, ' num_shards=%d %s' % (ns, repr(e)[:80]))
      try:
        got = np.asarray(jx.JaxParetoOptimalAlgorithm().is_pareto_optimal(P)).reshape(-1)
        if not np.array_equal(got, want):
          V('Jax.is_pareto_optimal', P, got, want)
        fr = np.asarray(jx.get_frontier(P, verbose=False))
        if sorted(map(tuple, fr.tolist())) != sorted(map(tuple, P[want].tolist())):
          V('get_frontier', P, None, want, ' returned %s' % fr.tolist())
        r = np.asarray(jx.pareto_rank(P)).reshape(-1)
        if not np.array_equal(r, bf_rank(P)):
          V('xla.pareto_rank', P, r, bf_rank(P))
        r2 = np.asarray(nsga2._pareto_rank(P)).reshape(-1)
        if not np.array_equal(r2, bf_rank(P)):
          V('nsga2._pareto_rank', P, r2, bf_rank(P))
        got = np.asarray(fastjax.is_pareto_optimal(P)).reshape(-1)
        if not np.array_equal(got, want):
          V('Fast(Jax base).is_pareto_optimal', P, got, want)
      except Exception as e:  # pylint: disable=broad-except
        V('jax-routines:raises', P, None, want, repr(e)[:120])
  return {'n': n, 'nontrivial': nontriv, 'violations': list(vios.values())}


def against_shard(task):
  from vizier._src.pyvizier.multimetric import pareto_optimal as po
  alpha, d, kmax, first = task['alpha'], task['d'], task['kmax'], tuple(task['first'])
  algos = {'Naive': po.NaiveParetoOptimalAlgorithm()}
  for t in task['thresholds']:
    algos['Fast(threshold=%d)' % t] = po.FastParetoOptimalAlgorithm(recursive_threshold=t)
  if task['jax']:
    import jax
    jax.config.update('jax_enable_x64', True)
    from vizier._src.jax import xla_pareto
    algos['Jax'] = xla_pareto.JaxParetoOptimalAlgorithm()
  n = nontriv = 0
  vios = {}
  sets = list(point_sets(alpha, d, kmax))
  for P in point_sets(alpha, d, kmax, first):
    for A in sets:
      for strict in (True, False):
        want = bf_against(P, A, strict)
        n += 1
        if not want.all():
          nontriv += 1
        for name, al in algos.items():
          try:
            got = np.asarray(al.is_pareto_optimal_against(P, A, strict=strict)).reshape(-1)
            ok = got.shape == want.shape and np.array_equal(got, want)
          except Exception as e:  # pylint: disable=broad-except
            got, ok = None, False
          if not ok:
            rn = name if not name.startswith('Fast') else 'Fast'
            sig = 'C11|against|%s|strict=%s' % (rn, strict)
            if sig not in vios:
              vios[sig] = {'sig': sig, 'desc': '%s.is_pareto_optimal_against(points=%s, against=%s, strict=%s) gives %s, definition gives %s'
                           % (name, P.tolist(), A.tolist(), strict, None if got is None else got.tolist(), want.tolist()),
                           'case': {'part': 'A', 'algo': name, 'points': P.tolist(), 'against': A.tolist(), 'strict': strict}}
  return {'n': n, 'nontrivial': nontriv, 'violations': list(vios.values())}


# ---- study level -----------------------------------------------------------------------------------
STATUSES = ['ok', 'active', 'missing', 'infeasible', 'nan']
GOALS = [(('m', 'MAXIMIZE'),), (('m', 'MINIMIZE'),), (('m', 'MAXIMIZE'), ('n', 'MINIMIZE')), (('m', 'MINIMIZE'), ('n', 'MINIMIZE'))]


def trial_alphabet(nm, quick):
  vals = (0.0, 1.0) if quick else (0.0, 1.0, 2.0)
  out = [('active', None)]
  for v in itertools.product(vals, repeat=nm):
    out.append(('ok', v))
  # diverged runs: the same infinity reported by several trials, alone or next to a finite metric
  inf = float('inf')
  for v in ([(inf,), (-inf,)] if nm == 1 else [(inf, 0.0), (inf, 1.0), (0.0, inf), (-inf, 1.0), (inf, inf)]):
    out.append(('ok', v))
  out.append(('infeasible', tuple([max(vals) + 1] * nm)))   # infeasible although its measurement dominates
  out.append(('nan', tuple([float('nan')] + [vals[0]] * (nm - 1))))
  if nm > 1:
    out.append(('missing', (max(vals) + 1,)))                # reports only the first metric
  return out


def study_optimal(goals, hist):
  """Indices (0-based) of optimal trials by the statement's definition."""
  names = [g[0] for g in goals]
  cand = []
  for i, (st, vals) in enumerate(hist):
    if st != 'ok':
      continue
    v = [(x if g[1] == 'MAXIMIZE' else -x) for x, g in zip(vals, goals)]
    cand.append((i, np.array(v)))
  out = []
  for i, v in cand:
    if not any(np.all(w >= v) and np.any(w > v) for j, w in cand if j != i):
      out.append(i)
  return out


def service_shard(task):
  from vfw import svc
  from vizier._src.service import study_pb2
  goals = tuple(tuple(g) for g in task['goals'])
  names = [g[0] for g in goals]
  alpha = trial_alphabet(len(goals), task['quick'])
  bks = task['backends']
  key = 'svc-' + '-'.join(bks)
  if key not in _CACHE:
    _CACHE[key] = [svc.Backend(k) for k in bks]
    _CACHE[key + 'snap'] = [b.snapshot() for b in _CACHE[key]]
  bs = _CACHE[key]
  n = nontriv = 0
  vios = {}
  first = tuple(task['first']) if task['first'] is not None else None
  for k in range(1, task['kmax'] + 1):
    for hist in itertools.product(alpha, repeat=k):
      if first is not None and (hist[0][0], hist[0][1]) != (first[0], tuple(first[1]) if first[1] is not None else None) and not (
              hist[0][0] == first[0] == 'nan'):
        continue
      n += 1
      want = study_optimal(goals, hist)
      if len(want) != sum(1 for h in hist if h[0] == 'ok'):
        nontriv += 1
      for b, snap in zip(bs, _CACHE[key + 'snap']):
        b.restore(snap)
        req = svc.vs.CreateStudyRequest(parent=svc.OWNER, study=study_pb2.Study(display_name='s', study_spec=svc.spec('SCRIPTED', goals)))
        b.servicer.CreateStudy(req)
        for st, vals in hist:
          t = study_pb2.Trial()
          t.parameters.add(parameter_id='x').value.number_value = 0.5
          tr = b.servicer.CreateTrial(svc.vs.CreateTrialRequest(parent=svc.study_name('s'), trial=t))
          if st == 'active':
            continue
          # hand the trial to a worker, then complete it through the RPC
          b.servicer.SuggestTrials(svc.vs.SuggestTrialsRequest(parent=svc.study_name('s'), client_id='w', suggestion_count=1))
          r = svc.vs.CompleteTrialRequest(name=tr.name)
          for nm_, v in zip(names, vals):
            r.final_measurement.metrics.add(metric_id=nm_, value=v)
          if st == 'infeasible':
            r.trial_infeasible = True
            r.infeasible_reason = 'bad' if len(b.ds.list_trials(svc.study_name('s'))) % 2 else ''      # a reason is optional
          b.servicer.CompleteTrial(r)
        resp = b.servicer.ListOptimalTrials(svc.vs.ListOptimalTrialsRequest(parent=svc.study_name('s')))
        got = sorted(int(t.id) - 1 for t in resp.optimal_trials)
        # the same question asked by a client that has read the trials (through the converters) into its own in-RAM study
        if not any(h[0] == 'nan' for h in hist):
          try:
            from vizier import pythia
            from vizier._src.pyvizier.oss import proto_converters as pc_
            from vizier.service import pyvizier as svz_
            lst = b.servicer.ListTrials(svc.vs.ListTrialsRequest(parent=svc.study_name('s'))).trials
            prob_ = svz_.StudyConfig.from_proto(b.servicer.GetStudy(svc.vs.GetStudyRequest(name=svc.study_name('s'))).study_spec).to_problem()
            sup = pythia.InRamPolicySupporter(prob_)
            sup.AddTrials(pc_.TrialConverter.from_protos(lst))
            got2 = sorted(t.id - 1 for t in sup.GetBestTrials(count=None))
          except Exception as e:  # pylint: disable=broad-except
            got2 = 'raises %r' % e
          if got2 != want and not (isinstance(got2, str) and not [h for h in hist if h[0] == 'ok']):
            sig = 'C11|best-trials-of-read-back-study|%s' % ('reports:' + '+'.join(sorted({hist[i][0] for i in got2 if i not in want})) if not isinstance(got2, str) and [i for i in got2 if i not in want] else 'differs')
            if sig not in vios:
              vios[sig] = {'sig': sig, 'desc': '[%s] goals=%s trials=%s: GetBestTrials over the trials read back from the service returns %s, definition gives %s' % (b.kind, goals, hist, got2, [i + 1 for i in want] if False else want),
                           'case': {'part': 'S', 'goals': goals, 'hist': [list(h) for h in hist], 'backend': b.kind}}
        if got != want:
          extra = [i for i in got if i not in want]
          cls = 'reports:' + '+'.join(sorted({hist[i][0] for i in extra})) if extra else 'omits-optimal'
          sig = 'C11|ListOptimalTrials|%s' % cls
          if sig not in vios:
            vios[sig] = {'sig': sig, 'desc': '[%s] goals=%s trials=%s: ListOptimalTrials returns trials %s, definition gives %s' % (b.kind, goals, hist, [i + 1 for i in got], [i + 1 for i in want]),
                         'case': {'part': 'S', 'goals': goals, 'hist': [list(h) for h in hist], 'backend': b.kind}}
  return {'n': n, 'nontrivial': nontriv, 'violations': list(vios.values())}


def safety_shard(task):
  """Safety metrics: (a) SafetyChecker on every combination of readings for 1-2 safety metrics, (b) GetBestTrials on every history
  of <= 3 (4) completed trials with an objective (two objectives) and a safety reading each. An unsafe trial (reading beyond the
  threshold, or not a number) is treated as having the worst objective values; a trial that reports no reading is safe."""
  import math
  from vizier import pythia
  from vizier import pyvizier as vz
  from vizier._src.pyvizier.multimetric import safety
  vios, n, nontriv = {}, 0, 0
  nan, inf = float('nan'), float('inf')
  READ = [None, -1.0, 0.0, 0.5, 1.0, 2.0, nan, inf, -inf]

  def safe(goal, thr, v):
    if v is None:
      return True
    if math.isnan(v):
      return False
    return v >= thr if goal == 'MAXIMIZE' else v <= thr
  # (a)
  for cfgs in itertools.chain(itertools.product(itertools.product(['MAXIMIZE', 'MINIMIZE'], [0.0, 1.0]), repeat=1),
                              itertools.product(itertools.product(['MAXIMIZE', 'MINIMIZE'], [0.0, 1.0]), repeat=2)):
    mc = vz.MetricsConfig([vz.MetricInformation('obj', goal=vz.ObjectiveMetricGoal.MAXIMIZE)] +
                          [vz.MetricInformation('s%d' % i, goal=getattr(vz.ObjectiveMetricGoal, g), safety_threshold=thr) for i, (g, thr) in enumerate(cfgs)])
    checker = safety.SafetyChecker(mc)
    for reads in itertools.product(READ, repeat=len(cfgs)):
      n += 1
      nontriv += 1
      m = vz.Measurement({'obj': 1.0})
      try:
        for i, v in enumerate(reads):
          if v is not None:
            m.metrics['s%d' % i] = v
        got = list(checker.are_measurements_safe([m]))[0]
      except Exception as e:  # pylint: disable=broad-except
        got = 'raises %s' % type(e).__name__
      want = all(safe(g, thr, v) for (g, thr), v in zip(cfgs, reads))
      if got != want:
        kinds = sorted({'nan' if (v is not None and math.isnan(v)) else 'missing' if v is None else 'number' for v in reads})
        sig = 'C11|safety-check|%s' % '+'.join(kinds)
        vios.setdefault(sig, {'sig': sig, 'desc': 'safety metrics %s, readings %s: are_measurements_safe says %s, expected %s' % (list(cfgs), list(reads), got, want), 'case': {'part': 'F'}})
  # (b)
  for goals in ((('m', 'MAXIMIZE'),), (('m', 'MINIMIZE'),), (('a', 'MAXIMIZE'), ('b', 'MINIMIZE'))):
    for sgoal, thr in (('MAXIMIZE', 0.5), ('MINIMIZE', 0.5)):
      prob = vz.ProblemStatement()
      prob.search_space.root.add_float_param('x', 0.0, 1.0)
      for nm_, g in goals:
        prob.metric_information.append(vz.MetricInformation(nm_, goal=getattr(vz.ObjectiveMetricGoal, g)))
      prob.metric_information.append(vz.MetricInformation('s', goal=getattr(vz.ObjectiveMetricGoal, sgoal), safety_threshold=thr))
      ovals = [(0.0,), (1.0,), (2.0,)] if len(goals) == 1 else [(0.0, 0.0), (1.0, 0.0), (0.0, 1.0), (1.0, 1.0)]
      alpha = [(ov, sr) for ov in ovals for sr in (None, 0.0, 1.0, nan)]
      for k in range(1, task['kmax'] + 1):
        for hist in itertools.product(alpha, repeat=k):
          if k == task['kmax'] and len(goals) == 2 and hist[0][1] not in (None, nan) and not (isinstance(hist[0][1], float) and math.isnan(hist[0][1])):
            continue   # the longest two-objective histories only with a missing / NaN first reading (keeps the product small)
          n += 1
          sup = pythia.InRamPolicySupporter(prob)
          ts = []
          for ov, sr in hist:
            t = vz.Trial(parameters={'x': 0.5})
            md = {g[0]: v for g, v in zip(goals, ov)}
            if sr is not None:
              md['s'] = sr
            t.complete(vz.Measurement(md))
            ts.append(t)
          sup.AddTrials(ts)
          # oracle: maximisation-oriented warped vectors, -inf everywhere when unsafe
          vec = []
          for ov, sr in hist:
            if safe(sgoal, thr, sr):
              vec.append(tuple(v if g[1] == 'MAXIMIZE' else -v for g, v in zip(goals, ov)))
            else:
              vec.append(tuple(-inf for _ in goals))
          want = sorted(i for i, a in enumerate(vec) if not any(all(y >= x for x, y in zip(a, b)) and any(y > x for x, y in zip(a, b)) for b in vec))
          if len(want) != len(hist):
            nontriv += 1
          try:
            got = sorted(t.id - 1 for t in sup.GetBestTrials(count=None))
          except Exception as e:  # pylint: disable=broad-except
            got = 'raises %r' % e
          if got != want:
            kinds = sorted({'nan' if (sr is not None and math.isnan(sr)) else 'missing' if sr is None else ('safe' if safe(sgoal, thr, sr) else 'unsafe') for _, sr in hist})
            sig = 'C11|best-trials-with-safety|%d-objective|%s' % (len(goals), '+'.join(kinds))
            vios.setdefault(sig, {'sig': sig, 'desc': 'goals %s safety (%s, threshold %s) history %s: GetBestTrials returns %s, expected %s' % (goals, sgoal, thr, list(hist), got, want), 'case': {'part': 'F'}})
  return {'n': n, 'nontrivial': nontriv, 'violations': list(vios.values())}


def best_shard(task):
  """InRamPolicySupporter.GetBestTrials on the same histories (count in {None,1,2})."""
  from vizier import pythia
  from vizier import pyvizier as vz
  goals = tuple(tuple(g) for g in task['goals'])
  alpha = [a for a in trial_alphabet(len(goals), task['quick']) if a[0] != 'nan']  # pyvizier Metric refuses NaN
  n = nontriv = 0
  vios = {}
  first = task['first']
  for k in range(1, task['kmax'] + 1):
    for hist in itertools.product(alpha, repeat=k):
      if first is not None and list(hist[0][:1]) + [list(hist[0][1]) if hist[0][1] is not None else None] != [first[0], first[1]]:
        continue
      prob = vz.ProblemStatement()
      prob.search_space.root.add_float_param('x', 0.0, 1.0)
      for nm_, g in goals:
        prob.metric_information.append(vz.MetricInformation(nm_, goal=getattr(vz.ObjectiveMetricGoal, g)))
      sup = pythia.InRamPolicySupporter(prob)
      ts = []
      for st, vals in hist:
        t = vz.Trial(parameters={'x': 0.5})
        if st == 'ok':
          t.complete(vz.Measurement({g[0]: v for g, v in zip(goals, vals)}))
        elif st == 'missing':
          t.complete(vz.Measurement({goals[0][0]: vals[0]}))
        elif st == 'infeasible':
          t.complete(vz.Measurement({g[0]: v for g, v in zip(goals, vals)}), infeasibility_reason='bad')
        ts.append(t)
      sup.AddTrials(ts)
      want = study_optimal(goals, hist)
      cand = [i for i, h in enumerate(hist) if h[0] == 'ok']
      for count in (None, 1, 2):
        n += 1
        if len(want) != len(hist):
          nontriv += 1
        try:
          got = sorted(t.id - 1 for t in sup.GetBestTrials(count=count))
          err = None
        except Exception as e:  # pylint: disable=broad-except
          got, err = None, e
        ok = True
        why = ''
        if err is not None:
          # an empty candidate set may be refused with an error
          ok = not cand
          why = 'raises %r' % err
        elif count is None:
          ok = got == want
        elif len(goals) == 1:
          sgn = 1 if goals[0][1] == 'MAXIMIZE' else -1
          ok = len(got) == min(count, len(cand)) and all(i in cand for i in got)
          if ok and got:
            rest = [sgn * hist[i][1][0] for i in cand if i not in got]
            ok = not rest or min(sgn * hist[i][1][0] for i in got) >= max(rest)
        else:
          ok = len(got) == min(count, len(want)) and all(i in want for i in got)
        if not ok:
          extra = [i for i in (got or []) if i not in cand]
          if extra:
            cls = 'reports:' + '+'.join(sorted({hist[i][0] for i in extra}))
          elif err is not None:
            cls = 'raises'
          elif got is not None and count is None and len(goals) == 1 and len(got) < len(want):
            cls = 'single-objective-ties-dropped'
          elif got is not None and len(got) < (len(want) if count is None else min(count, len(want))):
            cls = 'omits-optimal'
          else:
            cls = 'wrong-set'
          sig = 'C11|GetBestTrials|%s|%s' % ('single' if len(goals) == 1 else 'multi', cls)
          if sig not in vios:
            vios[sig] = {'sig': sig, 'desc': 'goals=%s trials=%s count=%s: GetBestTrials returns %s %s, definition gives %s'
                         % (goals, hist, count, None if got is None else [i + 1 for i in got], why, [i + 1 for i in want]),
                         'case': {'part': 'G', 'goals': goals, 'hist': [list(h) for h in hist], 'count': count}}
  return {'n': n, 'nontrivial': nontriv, 'violations': list(vios.values())}


_CACHE = {}


def run(ctx):
  q = ctx.quick
  tasks = []
  G = [0.0, 1.0, 2.0]
  thresholds = [0, 1, 2, 3, 10000]
  plans = [(G, 1, 5 if q else 6, False), (G, 2, 4 if q else 5, False), (G, 3, 3 if q else 4, False),
           ([-np.inf, 1.0, np.inf], 2, 4, False), ([0.0, 1.0, 1.0 + 1e-12], 2, 4, False)]
  if not q:
    plans.append((G, 4, 3, False))
  # jax routines on smaller sets (each distinct shape compiles once per process)
  plans += [(G, 2, 3 if q else 4, True), (G, 3, 2 if q else 3, True), ([-np.inf, 1.0, np.inf], 2, 3, True), (G, 1, 4, True)]
  for alpha, d, kmax, jx in plans:
    for f in _grid(alpha, d):
      tasks.append(('points_shard', {'alpha': alpha, 'd': d, 'kmax': kmax, 'first': list(f), 'jax': jx,
                                     'thresholds': thresholds, 'shards': [1, 2, 3, 10]}))
  for alpha, d, kmax, jx in [(G, 2, 2 if q else 3, False), (G, 1, 3, False), (G, 3, 2, False), (G, 2, 2, True)]:
    for f in _grid(alpha, d):
      tasks.append(('against_shard', {'alpha': alpha, 'd': d, 'kmax': kmax, 'first': list(f), 'jax': jx, 'thresholds': [0, 1, 2, 3]}))
  for goals in GOALS:
    alpha = trial_alphabet(len(goals), q)
    for f in alpha:
      tasks.append(('service_shard', {'goals': goals, 'kmax': 3 if q else 4, 'first': [f[0], list(f[1]) if f[1] is not None else None],
                                      'quick': q, 'backends': ['ram'] if q else ['ram', 'sqlmem']}))
      if f[0] != 'nan':
        tasks.append(('best_shard', {'goals': goals, 'kmax': 3 if q else 4, 'first': [f[0], list(f[1]) if f[1] is not None else None], 'quick': q}))
  if q:
    tasks.append(('service_shard', {'goals': GOALS[2], 'kmax': 2, 'first': None, 'quick': True, 'backends': ['sqlmem']}))
  tasks.append(('safety_shard', {'kmax': 3 if q else 4}))
  total = nontriv = 0
  per = {}
  # group by function for pmap
  by = {}
  for fn, t in tasks:
    by.setdefault(fn, []).append(t)
  for fn, ts in by.items():
    for r in ctx.pmap(fn, ts):
      total += r['n']
      nontriv += r['nontrivial']
      per[fn] = per.get(fn, 0) + r['n']
      ctx.extend(r['violations'])
  return {
      'evaluations': total, 'distinct_nontrivial': nontriv,
      'rule': 'full product of ordered point sequences / trial histories over the stated alphabets; every generated case is distinct by construction; '
              'non-trivial = at least one point (trial) is dominated or excluded, i.e. the answer is not "everything is optimal"',
      'samples': [{'points': [[0, 1], [0, 0]], 'routine': 'Fast(threshold=1)'}, {'goals': GOALS[2], 'history': [['ok', [1, 0]], ['infeasible', [3, 3]], ['active', None]]}],
      'cases_per_part': per, 'exhaustive': True,
  }


def replay(case, ctx):
  part = case.get('part')
  if part == 'P':
    P = np.array(case['points'], dtype=np.float64)
    r = points_shard({'alpha': sorted({float(x) for row in case['points'] for x in row}), 'd': P.shape[1], 'kmax': 0, 'first': case['points'][0],
                      'jax': True, 'thresholds': [0, 1, 2, 3, 10000], 'shards': [1, 2, 3, 10]})
    # direct re-evaluation of the stored set
    from vizier._src.pyvizier.multimetric import pareto_optimal as po
    out = []
    want = bf_optimal(P)
    for t in (0, 1, 2, 3):
      got = np.asarray(po.FastParetoOptimalAlgorithm(recursive_threshold=t).is_pareto_optimal(P)).reshape(-1)
      if not np.array_equal(got, want):
        out.append({'sig': 'C11|points|Fast(threshold=small).is_pareto_optimal', 'desc': 'threshold %d: %s vs %s' % (t, got, want), 'case': case})
    return out
  if part == 'S':
    hist = [(h[0], tuple(h[1]) if h[1] is not None else None) for h in case['hist']]
    r = service_shard({'goals': case['goals'], 'kmax': len(hist), 'first': [hist[0][0], list(hist[0][1]) if hist[0][1] is not None else None],
                       'quick': False, 'backends': [case.get('backend', 'ram')]})
    return r['violations']
  if part == 'G':
    hist = case['hist']
    r = best_shard({'goals': case['goals'], 'kmax': len(hist), 'first': [hist[0][0], hist[0][1]], 'quick': False})
    return r['violations']
  return []
