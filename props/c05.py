"""C05 SQL crash consistency: crash before every SQL statement / commit of every RPC kind after every short
prefix; reopen the file with a fresh server; atomicity, durability, integrity and liveness oracles."""
import json
import os
import subprocess
import sys
import tempfile

from props import c01
from vfw import crash, lifecycle, svc
from vfw.lifecycle import E

LEVEL = 'fault_enumeration'
ASSUMPTIONS = [
    'a process death is simulated by raising a BaseException before SQL event k and closing the sqlite connection without commit; cross-validated against real os._exit(137) in child processes (count in coverage.crosschecked_with_real_process_death)',
    'SQLite atomic commit (journal replay) is trusted; no sub-statement page tearing is modelled',
    'python code between two SQL events touches no durable state, so crash-after-k equals crash-before-(k+1)',
]
SINGLE = ('CreateStudy', 'DeleteStudy', 'SetStudyState', 'CreateTrial', 'AddTrialMeasurement', 'CompleteTrial',
          'StopTrial', 'DeleteTrial', 'UpdateMetadata')
_FS = {}


def fs():
  if 'fs' not in _FS:
    d = tempfile.mkdtemp(prefix='c05-', dir=svc.scratch())
    _FS['fs'] = crash.FileSystemUnderTest(d)
  return _FS['fs']


def mutators(sysm):
  out = []
  for a in c01.actions(sysm):
    if a[0] in lifecycle.READ_ONLY or a[0] in ('Tick', 'CreateStudyNamed', 'CreateStudyNoDisplay'):
      continue
    out.append(a)
  canon = sysm.canons()[0]
  st = lifecycle.study_of(canon, 's')
  if st is not None:
    ts = lifecycle.trials_of(canon, 's') or []
    ids = [int(t['id']) for t in ts]
    if ids:
      out.append(('UpdateMetadata', 's', ((None, '', 'k', 'v'), (ids[0], '', 'k', 'v'), (ids[-1], 'n', 'k2', 'w'))))
      out.append(('SuggestTrials', 's', 'a', 2, E(delta=1, md_study=(((), 'alg', 'state1'),))))
    else:
      out.append(('SuggestTrials', 's', 'a', 2, E(delta=1, md_study=(((), 'alg', 'state1'),))))
  return out


def build_prefixes(depth, cfg):
  """BFS (RAM, in the parent) over mutating calls: one shortest path per distinct canonical state."""
  sysm = lifecycle.ServiceSystem('C05', cfg, mutators)
  seen = {}
  frontier = [()]
  sysm.reset()
  seen[sysm.key()] = ()
  for d in range(depth):
    nxt = []
    for path in frontier:
      sysm.reset()
      for a in path:
        sysm.apply(a)
      snap = sysm.snapshot()
      for a in sysm.actions():
        sysm.restore(snap)
        sysm.apply(a)
        k = sysm.key()
        if k not in seen:
          seen[k] = path + (a,)
          nxt.append(path + (a,))
    frontier = nxt
  out = []
  for k, path in seen.items():
    sysm.reset()
    for a in path:
      sysm.apply(a)
    out.append((path, sysm.actions()))
  sysm.close()
  return out


def _orphans(b):
  """Rows that belong to no stored study (raw SQL, independent of the datastore API)."""
  raw = b.raw()
  studies = {(r[0], r[1]) for r in raw.execute('select owner_id, study_id from studies')}
  bad = []
  for table in ('trials', 'suggestion_operations', 'early_stopping_operations'):
    for r in raw.execute('select owner_id, study_id from %s' % table):
      if (r[0], r[1]) not in studies:
        bad.append(table)
  return bad


def _superset(pre, st, client):
  """Multi-commit calls: everything acknowledged before is still there (REQUESTED->ACTIVE by `client` allowed)."""
  bad = []
  a, b = lifecycle.trials_of(pre) or [], {t['id']: t for t in (lifecycle.trials_of(st) or [])}
  for t in a:
    u = b.get(t['id'])
    if u is None:
      bad.append('trial %s acknowledged before the crash is gone' % t['id'])
      continue
    t2 = dict(t)
    if t['state'] == 'REQUESTED' and u['state'] == 'ACTIVE' and u['client'] == client:
      t2['state'], t2['client'] = 'ACTIVE', client
    for f in ('state', 'client', 'params', 'meas', 'final', 'reason'):
      if t2[f] != u[f]:
        bad.append('trial %s field %s changed by an interrupted call' % (t['id'], f))
    if not set(t2['md']) <= set(u['md']):
      bad.append('trial %s lost metadata' % t['id'])
  sa, sb = lifecycle.study_of(pre), lifecycle.study_of(st)
  if sa is not None:
    if sb is None:
      bad.append('study acknowledged before the crash is gone')
    elif sa['state'] != sb['state'] or sa['spec'] != sb['spec']:
      bad.append('study changed by an interrupted call')
  return bad


def _liveness(b, desc):
  """After the restart every worker can suggest and complete (when the study is there and active)."""
  bad = []
  st = lifecycle.study_of(b.canon())
  if st is None or st['state'] not in ('ACTIVE', 'STATE_UNSPECIFIED'):
    return bad
  for c in ('a', 'b'):
    cls, view, raw = svc.apply(b, ('SuggestTrials', 's', c, 1))
    if cls != 'OK':
      bad.append(('liveness:suggest-fails', 'after restart SuggestTrials(%s) fails with %s' % (c, cls)))
      continue
    if not view[2]:
      bad.append(('liveness:suggest-not-done', 'after restart SuggestTrials(%s) returns the abandoned operation %s (done=False): the worker polls forever' % (c, view[1])))
      continue
    if view[3] or not view[4]:
      bad.append(('liveness:suggest-error', 'after restart SuggestTrials(%s) yields error/no trial' % c))
      continue
    tid = int(dict(view[4][0])['id'])
    cls2, v2, _ = svc.apply(b, ('CheckTrialEarlyStoppingState', 's', tid))
    if cls2 != 'OK':
      bad.append(('liveness:earlystop-fails', 'after restart CheckTrialEarlyStoppingState(%d) fails with %s' % (tid, cls2)))
    cls3, v3, _ = svc.apply(b, ('CompleteTrial', 's', tid, 'final'))
    if cls3 != 'OK':
      bad.append(('liveness:complete-fails', 'after restart CompleteTrial(%d) fails with %s' % (tid, cls3)))
  # every trial that can still be checked gets an early-stopping answer from the restarted server
  mutable = [t['id'] for t in (lifecycle.trials_of(b.canon()) or []) if t['state'] in ('ACTIVE', 'STOPPING')]
  for tid in mutable:
    cls2, v2, _ = svc.apply(b, ('CheckTrialEarlyStoppingState', 's', int(tid)))
    if cls2 != 'OK':
      bad.append(('liveness:earlystop-fails', 'after restart CheckTrialEarlyStoppingState(%s) fails with %s' % (tid, cls2)))
  for clause, text in lifecycle.invariants(b.canon()):
    if clause == 'quiescent-earlystop-op' and text.split('/')[-1].split()[0] not in mutable:
      continue  # abandoned record of a trial that can no longer be checked: unobservable
    bad.append(('liveness:' + clause, 'after restart and one round of work: ' + text))
  return bad


_RAM = {}


def run_scenario(sc):
  path, final = [c01._t(a) for a in sc['path']], c01._t(sc['final'])
  f = fs()
  b = f.fresh()
  for a in path:
    svc.apply(b, a)
  pre = b.canon()
  f.save()
  # dry run: number of SQL events of the final call and the fully applied state
  b = f.reopen_saved()
  px = crash.ConnProxy(b.ds._connection)
  b.ds._connection = px
  out = svc.apply(b, final)
  n = len(px.events)
  events = list(px.events)
  b.ds._connection = px._r
  post = b.canon()
  vios, sims = [], {}
  kind = final[0]
  # "call applied" is what the call means, not what this datastore happened to keep: the acknowledged state, read after a
  # restart of the server on the file, must be the one the RAM datastore reaches by the same calls
  if out[0] == 'OK':
    b_ack = f.reopen()
    acked = b_ack.canon()
    if 'ram' not in _RAM:
      _RAM['ram'] = svc.Backend('ram')
      _RAM['empty'] = _RAM['ram'].snapshot()
    rb = _RAM['ram']
    rb.restore(_RAM['empty'])
    rb.env.__init__()
    svc.CLOCK.now = svc.BASE_T
    for a in path:
      svc.apply(rb, a)
    ref = svc.apply(rb, final)
    want = rb.canon()
    if ref[0] == 'OK' and acked != want:
      d0, d1 = dict(acked), dict(want)
      vios.append({'sig': 'C05|acknowledged-effect-not-durable|%s|%s' % (kind, lifecycle.ServiceSystem.arg_class(final)),
                   'desc': '%s returned OK; after a restart on the same file the stored %s differ from what the call means (RAM datastore, same calls)' % (kind, [x for x in d0 if d0[x] != d1.get(x)]),
                   'case': {'path': sc['path'], 'final': sc['final'], 'k': -1}})
  client = final[2] if kind == 'SuggestTrials' else ''
  argc = lifecycle.ServiceSystem.arg_class(final)
  for k in range(n + 1):
    b = f.reopen_saved()
    svc.CLOCK.now = svc.BASE_T
    b.ds._connection = crash.ConnProxy(b.ds._connection, crash_at=k)
    crashed = False
    try:
      svc.apply(b, final)
    except crash.Crash:
      crashed = True
    f.crash_now()
    b2 = f.reopen()
    st = b2.canon()
    sims[k] = st
    where = 'crash before SQL event %d/%d (%s) of %s' % (k, n, events[k] if k < n else 'after the last', kind)

    def V(clause, text):
      vios.append({'sig': 'C05|%s|%s|%s' % (clause, kind, argc), 'desc': '%s: %s' % (where, text),
                   'case': {'path': sc['path'], 'final': sc['final'], 'k': k}})
    if kind in SINGLE:
      if st != pre and st != post:
        d0, d1 = dict(st), dict(pre)
        V('atomicity', 'state after restart is neither "call not applied" nor "call applied"; differs from pre in %s'
          % [x for x in d0 if d0[x] != d1[x]])
    else:
      for text in _superset(pre, st, client):
        V('durability', text)
    for clause, text in lifecycle.invariants(st):
      if not clause.startswith('quiescent'):
        V('integrity:' + clause, text)
    orph = _orphans(b2)
    if orph:
      V('integrity:orphan-rows', 'rows of a study that does not exist in %s' % sorted(set(orph)))
    for clause, text in _liveness(b2, where):
      V(clause, text)
  xval = 0
  if sc.get('xval'):
    for k in sc['xval']:
      if k > n:
        continue
      d = tempfile.mkdtemp(prefix='xval-', dir=svc.scratch())
      job = {'dir': d, 'path': sc['path'], 'final': sc['final'], 'k': k}
      env = dict(os.environ)
      p = subprocess.run([sys.executable, '-m', 'vfw.crashchild', json.dumps(job)], cwd=os.path.dirname(os.path.dirname(os.path.abspath(__file__))),
                         env=env, capture_output=True, timeout=300)
      want_rc = 137 if k < n else 0
      f2 = crash.FileSystemUnderTest(d)
      b3 = f2.reopen()
      real = b3.canon()
      f2.close()
      xval += 1
      if p.returncode != want_rc or real != sims[k]:
        vios.append({'sig': 'C05|HARNESS|xval', 'desc': 'real process death (rc=%s, want %s) leaves a different database than the simulation at k=%d; stderr=%s'
                     % (p.returncode, want_rc, k, p.stderr[-300:]), 'case': job})
  f.close_keep_file()
  return {'events': n, 'runs': n + 1, 'violations': vios[:40], 'xval': xval, 'kind': kind, 'outcome': out[0]}


def run(ctx):
  cfg = {'backends': ['ram'], 'max_trials': 2, 'max_meas': 1, 'max_ops': 2, 'max_id': 3}
  depth = 2 if ctx.quick else 3
  prefs = build_prefixes(depth, cfg)
  if ctx.quick:
    # a few deeper hand-picked prefix states (trials in several states, metadata, a queued trial)
    sysm = lifecycle.ServiceSystem('C05', cfg, mutators)
    for path in ([('CreateStudy', 's'), ('SuggestTrials', 's', 'a', 2), ('CompleteTrial', 's', 1, 'final')],
                 [('CreateStudy', 's'), ('SuggestTrials', 's', 'a', 1), ('CreateTrial', 's', 'requested', 0.25),
                  ('UpdateMetadata', 's', ((None, '', 'k', 'v'), (1, '', 'k', 'v')))],
                 [('CreateStudy', 's'), ('SuggestTrials', 's', 'a', 1), ('CheckTrialEarlyStoppingState', 's', 1), ('StopTrial', 's', 1)]):
      sysm.reset()
      for a in path:
        sysm.apply(a)
      prefs.append((tuple(path), sysm.actions()))
    sysm.close()
  scs = []
  i = 0
  for path, acts in prefs:
    for a in acts:
      sc = {'path': [list(x) for x in path], 'final': list(a)}
      i += 1
      if ctx.quick:
        if i % 40 == (ctx.seed % 40):
          sc['xval'] = [1, 3]
      else:
        if i % 6 == (ctx.seed % 6):
          sc['xval'] = [0, 1, 2, 3, 5, 8, 13]
      scs.append(sc)
  # a study with more than a hundred trials (anything done in batches or pages has its boundaries there): deletion, a
  # metadata update naming the first and the last trial, a suggest
  big = [['CreateStudy', 's']] + [['CreateTrial', 's', 'requested', round(0.001 * i, 6)] for i in range(1, 121)]
  for final in (['DeleteStudy', 's'], ['UpdateMetadata', 's', [[None, '', 'k', 'v'], [1, '', 'k', 'v'], [120, '', 'k', 'v']]], ['SuggestTrials', 's', 'a', 2]):
    scs.append({'path': big, 'final': final})
  runs = events = xval = 0
  kinds = {}
  samples = []
  for r in ctx.pmap('run_scenario', scs):
    runs += r['runs']
    events += r['events']
    xval += r['xval']
    kinds[(r['kind'], r['outcome'])] = kinds.get((r['kind'], r['outcome']), 0) + r['runs']
    for v in r['violations']:
      if v['sig'].endswith('HARNESS|xval'):
        from vfw.runner import HarnessError
        raise HarnessError(v['desc'])
      ctx.violations.append(v)
  for sc in scs[:400:97]:
    samples.append({'prefix': sc['path'], 'interrupted_call': sc['final']})
  return {
      'evaluations': runs, 'distinct_nontrivial': len(scs),
      'rule': 'one evaluation = one crash run (history prefix, final call, crash before SQL event k) followed by a restart and the oracles; '
              'distinct_nontrivial counts distinct (prefix state, interrupted call) pairs, each explored at every one of its SQL events; prefixes are '
              'all distinct stored states reachable by <= %d mutating calls in the C01 alphabet' % depth,
      'samples': samples, 'prefix_states': len(prefs), 'scenarios': len(scs), 'sql_events_total': events,
      'crash_runs_per_rpc_and_outcome': {('%s:%s' % k): v for k, v in sorted(kinds.items())},
      'crosschecked_with_real_process_death': xval, 'exhaustive': True,
  }


def replay(case, ctx):
  r = run_scenario({'path': case['path'], 'final': case['final']})
  return [v for v in r['violations'] if v['case']['k'] == case['k']] or r['violations']
