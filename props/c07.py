"""C07 RAM == SQL(memory) == SQL(file): lock-step BFS, differential oracle on every transition."""
from props import c01
from vfw import lifecycle, statespace
from vfw.lifecycle import E

LEVEL = 'model_checking'
ASSUMPTIONS = [
    'same alphabet as C01 plus a study created with unsorted / repeated spec metadata, GetOperation, delete-study/re-create, malformed trial ids in metadata updates, early-stop recycle event',
    'timestamps and error messages are not compared; list order of ListTrials/ListStudies IS compared',
    'the three backends are driven in lock-step from one action sequence; a diverging transition is reported and not explored further',
]
_SYS = {}


def actions(sysm):
  acts = c01.actions(sysm)
  canon = sysm.canons()[0]
  st = lifecycle.study_of(canon, 's')
  for c in ('a', 'b'):
    for n in (1, 2):
      acts.append(('GetOperation', 's', c, n))
  if st is not None:
    acts.append(('UpdateMetadata', 's', (('x1', '', 'k', 'v'),)))           # malformed trial id
    acts.append(('UpdateMetadata', 's', ((None, 'n', 'k', 'v'), ('x1', '', 'k', 'v'))))
    acts.append(('UpdateMetadata', 's', ((None, '', 'k', ('proto', 3)),)))
  return acts


def multi_actions(sysm):
  """Reduced alphabet over several studies (different owners, ids that differ only by a SQL LIKE wildcard or by case)."""
  cfg = sysm.cfg
  canon = sysm.canons()[0]
  acts = []
  for s in cfg['studies']:
    st = lifecycle.study_of(canon, s)
    acts.append(('CreateStudy', s))
    if st is None:
      continue
    ts = lifecycle.trials_of(canon, s) or []
    ids = [int(t['id']) for t in ts]
    acts.append(('DeleteStudy', s))
    acts.append(('ListTrials', s))
    if len(ts) < cfg['max_trials']:
      acts.append(('CreateTrial', s, 'requested', 0.25))
      acts.append(('SuggestTrials', s, 'a', 1))
    else:
      sysm.pruned += 2
    for i in ids[:1]:
      acts.append(('GetTrial', s, i))
      acts.append(('CompleteTrial', s, i, 'final'))
      acts.append(('DeleteTrial', s, i))
      if not [t for t in ts if t['id'] == str(i)][0]['md']:
        acts.append(('UpdateMetadata', s, ((i, '', 'k', 'v-' + s),)))
    if not st['md']:
      acts.append(('UpdateMetadata', s, ((None, '', 'k', 'v-' + s),)))
  for ow in sorted({'owners/' + svc_owner(s) for s in cfg['studies']}):
    acts.append(('ListStudies', ow))
  return acts


def svc_owner(s):
  from vfw import svc
  return svc.owner_of(s)


def system(cfg):
  k = repr(sorted(cfg.items()))
  if k not in _SYS:
    _SYS[k] = lifecycle.ServiceSystem(cfg.get('pid', 'C07'), cfg, multi_actions if cfg.get('multi') else actions)
  return _SYS[k]


def expand(task):
  return statespace.expand_paths(system(task['cfg']), task['paths'])


def large_shard(task):
  """One long history on a study with more than a hundred trials on the three backends in lock-step (anything that pages,
  batches or sorts by name shows only beyond 9 / 99 trials)."""
  cfg = {'backends': ['ram', 'sqlmem', 'sqlfile'], 'model': False, 'max_trials': 400, 'max_meas': 1, 'max_ops': 4, 'max_id': 125}
  sysm = system(cfg)
  sysm.reset()
  path = [('CreateStudy', 's')]
  for i in range(1, 106):
    path.append(('CreateTrial', 's', 'succeeded' if i % 3 else 'requested', round(0.001 * i, 6)))
  path += [('ListTrials', 's'), ('SuggestTrials', 's', 'a', 2), ('ListOptimalTrials', 's'), ('SuggestTrials', 's', 'b', 40), ('ListTrials', 's'),
           ('CompleteTrial', 's', 3, 'final'), ('DeleteTrial', 's', 50), ('SuggestTrials', 's', 'a', 3), ('UpdateMetadata', 's', ((None, '', 'k', 'v'), (104, '', 'k', 'v'))), ('ListTrials', 's')]
  vios, done = [], 0
  for a in path:
    for v in sysm.apply(a):
      v = dict(v)
      v['sig'] += '|large-study'
      v['case'] = {'large': True}
      vios.append(v)
    done += 1
    if vios:
      break
  return {'n': done, 'violations': vios[:5]}


def run(ctx):
  base = {'backends': ['ram', 'sqlmem', 'sqlfile'], 'model': False, 'max_trials': 2, 'max_meas': 1, 'max_ops': 2, 'max_id': 3}
  # several studies: two owners with the same study id; ids that differ by a LIKE wildcard ('_', '%') or by case only
  multi = {'backends': ['ram', 'sqlmem'], 'model': False, 'multi': True, 'max_trials': 1, 'max_id': 2, 'clients': ('a',)}
  if ctx.quick:
    plans = [(base, 4),
             (dict(base, starts=[[('CreateStudyMd', 's')]]), 2),      # from a study created with unsorted / repeated spec metadata
             # from "the study has been used and then deleted": the stored data equal those of a server that never saw the
             # study (so the BFS merges the two), but a server may remember
             (dict(base, fresh_backends=True, starts=[[('CreateStudy', 's'), ('CreateTrial', 's', 'requested', 0.25), ('DeleteStudy', 's')],
                                                    [('CreateStudy', 's'), ('CreateTrial', 's', 'requested', 0.25), ('SuggestTrials', 's', 'a', 2), ('ListTrials', 's'), ('DeleteStudy', 's')]]), 0),
             # from a study that already holds 11 trials (ids with one and with two digits; REQUESTED and ACTIVE ones)
             (dict(base, max_trials=13, max_id=13, max_ops=3, starts=[[('CreateStudy', 's')] + [('CreateTrial', 's', 'requested', 0.25)] * 9 + [('SuggestTrials', 's', 'a', 2)] + [('CreateTrial', 's', 'requested', 0.25)] * 2]), 1),
             (dict(multi, studies=('s_1', 'sx1', 'p@s_1')), 5),
             (dict(multi, studies=('S%', 's1', 's10')), 4)]      # a LIKE wildcard, and one id that is a strict prefix of another
  else:
    plans = [(dict(base, max_trials=3, max_meas=2, max_ops=3, max_id=5), 6),
             (dict(base, starts=[[('CreateStudyMd', 's')]]), 4),
             (dict(base, max_trials=14, max_id=14, max_ops=3, starts=[[('CreateStudy', 's')] + [('CreateTrial', 's', 'requested', 0.25)] * 9 + [('SuggestTrials', 's', 'a', 2)] + [('CreateTrial', 's', 'requested', 0.25)] * 2]), 2),
             (dict(multi, studies=('s_1', 'sx1', 'p@s_1'), backends=['ram', 'sqlmem', 'sqlfile'], max_trials=2, max_id=3), 7),
             (dict(multi, studies=('S%', 's1', 'p@S%', 'p@s1'), max_trials=2, max_id=3), 6)]
  # the small targeted plans first: when the wall-clock budget runs out (loaded machine, or a change that forces the slow
  # replay-only mode) it is the tail of the big general plan that is cut, not a whole scenario family
  plans.sort(key=lambda pd: 0 if (pd[0].get('starts') or pd[0].get('fresh_backends') or pd[0].get('multi')) else 1)
  cov = {'states': 0, 'transitions': 0, 'traces_validated_against_impl': 0, 'samples': [], 'runs': [], 'exhaustive': True}
  for cfg, depth in plans:
    cfg = dict(cfg)
    starts = cfg.pop('starts', None)
    s = statespace.Search(ctx, 'expand', depth, cfg, chunk=8, starts=starts)
    import time as _time
    _t0 = _time.time()
    fp = s.run()
    c = s.coverage(fp)
    c['wall_s'] = round(_time.time() - _t0, 1)
    if c['snapshot_vs_replay_mismatches']:
      from vfw.runner import HarnessError
      raise HarnessError('snapshot/replay mismatch in %s' % cfg)
    for k in ('states', 'transitions', 'traces_validated_against_impl'):
      cov[k] += c[k]
    cov['samples'] += c.pop('samples')[:4]
    cov['exhaustive'] = cov['exhaustive'] and c['exhaustive']
    c['cfg'] = dict(cfg, starts=starts) if starts else cfg
    cov['runs'].append(c)
  for r in ctx.pmap('large_shard', [{}]):
    cov['transitions'] += r['n']
    cov['traces_validated_against_impl'] += r['n']
    cov['large_study_steps'] = r['n']
    ctx.extend(r['violations'])
  cov['backends_compared'] = base['backends']
  return cov


def replay(case, ctx):
  if case.get('large'):
    return large_shard({})['violations']
  sysm = system(case['cfg'])
  sysm.reset()
  for a in case['path']:
    sysm.apply(c01._t(a))
  return sysm.apply(c01._t(case['action']))
