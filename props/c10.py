"""C10 metadata store.

Part A (codec): every namespace tuple over a small string alphabet: decode(encode(ns)) == ns and encode is
injective (all encodings hashed; a collision is reported with both pre-images).
Part B (map): BFS over sequences of user updates (study / trial / missing trial, via the client API),
algorithm-issued deltas (scripted policy through SuggestTrials) and trial completion, on RAM and SQLite in
lock-step; after every step the metadata read back through the client must equal a python dict.
"""
import itertools

from vfw import statespace, svc

LEVEL = 'model_checking'
ASSUMPTIONS = [
    'codec alphabet: components are strings over {a, :, \\, u-umlaut} up to the stated length, tuples up to 3 components',
    'map alphabet: scopes {study, trial 1, trial 2, missing trial 9}, namespaces {(), (a), (a,b), (a:), (a\\)}, keys {k1,k2}, values {"", v, w, packed Duration (non-empty and empty payload), packed Timestamp}; reserved algorithm namespaces written through the scripted policy',
    'values are compared exactly (strings by equality, protos by type_url + bytes)',
]

CH = ['a', ':', '\\', 'ü']


def strings(maxlen):
  out = ['']
  for n in range(1, maxlen + 1):
    out += [''.join(p) for p in itertools.product(CH, repeat=n)]
  return out


def _classify(ns):
  if any(c.endswith('\\') for c in ns):
    return 'component-ends-with-backslash'
  return 'other:' + repr(ns)


def codec_shard(task):
  """All tuples whose first component is in task['firsts'] (plus the empty tuple for shard 0)."""
  from vizier import pyvizier as vz
  strs = strings(task['maxlen'])
  n = 0
  enc = {}
  vios = []
  bad_classes = set()

  def one(ns):
    nonlocal n
    n += 1
    x = vz.Namespace(ns)
    e = x.encode()
    back = tuple(vz.Namespace.decode(e))
    if back != ns:
      c = _classify(ns)
      if c not in bad_classes:
        bad_classes.add(c)
        vios.append({'sig': 'C10|ns-roundtrip|' + c, 'desc': 'decode(encode(%r)) = %r (encoded %r)' % (ns, back, e), 'case': {'part': 'A', 'ns': list(ns)}})
    enc.setdefault(e, []).append(ns)

  if task['first_shard']:
    one(())
  for f in task['firsts']:
    one((f,))
    if task['maxcomp'] >= 2:
      for g in strs:
        one((f, g))
        if task['maxcomp'] >= 3:
          for h in strs:
            one((f, g, h))
  # encodings are returned as a compact map for the global injectivity check
  return {'n': n, 'violations': vios, 'enc': {e: [list(x) for x in v[:2]] for e, v in enc.items() if True} if task['return_enc'] else None,
          'local_collisions': [(e, [list(x) for x in v[:2]]) for e, v in enc.items() if len(v) > 1][:20]}


# ------------------------------------------------------------------------------------------------
NSS = [(), ('a',), ('a', 'b'), ('a:',), ('a\\',)]
KEYS = ['k1', 'k2']
VALS = ['', 'v', 'w', ('proto', 3), ('proto', 0), ('proto-ts', 0), ('proto-ts', 5)]
ALGO_NS = ('designer_policy_v0',)
_SYS = {}


class MetaSystem:
  """statespace.System for part B."""

  def __init__(self, cfg):
    from vizier._src.service import clients, vizier_client
    self.cfg = cfg
    self.bs = [svc.Backend(k) for k in cfg['backends']]
    self.clients = [vizier_client.VizierClient(svc.study_name('s'), 'cl', b.servicer) for b in self.bs]
    self.Study, self.Trial = clients.Study, clients.Trial
    # fixed initial state: one study with two active trials
    for b in self.bs:
      svc.apply(b, ('CreateStudy', 's'))
      svc.apply(b, ('SuggestTrials', 's', 'a', 2))
    self._init = [b.snapshot() for b in self.bs]
    self.pruned = 0
    self.reset()

  def reset(self):
    for b, s in zip(self.bs, self._init):
      b.restore(s)
    self.map = {}
    self._last = None

  def snapshot(self):
    return ([b.snapshot() for b in self.bs], dict(self.map))

  def restore(self, snap):
    for b, s in zip(self.bs, snap[0]):
      b.restore(s)
    self.map = dict(snap[1])

  def drop(self, snap):
    for s in snap[0]:
      if hasattr(s, 'close'):
        s.close()

  def last_outcome(self):
    return self._last

  def key(self):
    return tuple(sorted(self.map.items(), key=repr)) + tuple(self._trial_states(self.bs[0]))

  def _trial_states(self, b):
    return [(t.id, t.state) for t in sorted(b.ds.list_trials(svc.study_name('s')), key=lambda t: int(t.id))]

  def actions(self):
    cfg = self.cfg
    acts = []
    nss = [NSS[i] for i in cfg['ns']]
    vals = [VALS[i] for i in cfg['vals']]
    if len(self.map) >= cfg['max_entries']:
      # only overwrites of existing cells and failing updates beyond the bound
      for (scope, ns, key), v in sorted(self.map.items(), key=repr):
        for val in vals:
          acts.append(('user', scope, ns, key, val))
      self.pruned += 1
    else:
      for scope in cfg['scopes']:
        for ns in nss:
          for key in KEYS:
            for val in vals:
              acts.append(('user', scope, ns, key, val))
    acts.append(('user', 9, (), 'k1', 'v'))
    acts.append(('multi', (('S', (), 'k1', 'w'), (1, ('a',), 'k1', 'w'))))
    acts.append(('multi', (('S', (), 'k2', 'w'), (9, (), 'k1', 'w'), (1, (), 'k2', 'w'))))   # names a missing trial
    acts.append(('algo', (('S', ALGO_NS, 'k1', 'st1'),)))
    acts.append(('algo', (('S', ALGO_NS + ('sub',), 'k1', 'st2'), (1, ALGO_NS, 'k1', 'st3'))))
    # the same namespace and key on the study and on both trials, in one delta (units adjacent in the transport)
    acts.append(('algo', (('S', ALGO_NS, 'k2', 'st4'), (1, ALGO_NS, 'k2', 'st5'), (2, ALGO_NS, 'k2', 'st6'))))
    acts.append(('algo', ((1, ('a',), 'k2', 'r1'), (2, ('a',), 'k2', 'r2'))))
    acts.append(('multi', (('S', ('a',), 'k1', 'x'), (1, ('a',), 'k1', 'y'), (2, ('a',), 'k1', 'z'))))
    acts.append(('complete', 1))
    return acts

  @staticmethod
  def _val(v):
    if isinstance(v, tuple):
      from google.protobuf import duration_pb2, timestamp_pb2
      # seconds=0 serialises to zero bytes: a packed proto with an empty payload
      return duration_pb2.Duration(seconds=v[1]) if v[0] == 'proto' else timestamp_pb2.Timestamp(seconds=v[1])
    return v

  @staticmethod
  def _mval(v):
    if isinstance(v, tuple):
      from google.protobuf import any_pb2
      a = any_pb2.Any()
      a.Pack(MetaSystem._val(v))
      return ('proto', a.type_url, bytes(a.value))
    return ('str', v)

  def _read(self, i):
    """The whole map as read back through the client API of backend i."""
    from vizier import pyvizier as vz
    out = {}

    def take(scope, md):
      for ns in md.namespaces():
        for k, v in md.abs_ns(ns).items():
          out[(scope, tuple(ns), k)] = ('str', v) if isinstance(v, str) else ('proto', v.type_url, bytes(v.value))
    st = self.Study(self.clients[i])
    take('S', st.materialize_study_config().metadata)
    for t in st.trials().get():
      take(t.id, t.metadata)
    return out

  def apply(self, a):
    from vizier import pyvizier as vz
    vios = []
    want = dict(self.map)
    expect_fail = False
    kind = a[0]
    outcomes = []
    for i, b in enumerate(self.bs):
      st = self.Study(self.clients[i])
      err = None
      try:
        if kind == 'user':
          _, scope, ns, key, val = a
          md = vz.Metadata()
          md.abs_ns(vz.Namespace(ns))[key] = self._val(val)
          if scope == 'S':
            st.update_metadata(md)
          else:
            self.Trial(self.clients[i], scope).update_metadata(md)
        elif kind == 'multi':
          d = vz.MetadataDelta()
          for scope, ns, key, val in a[1]:
            tgt = d.on_study if scope == 'S' else d.on_trials[scope]
            tgt.abs_ns(vz.Namespace(ns))[key] = self._val(val)
          self.clients[i].update_metadata(d)
        elif kind == 'algo':
          # the algorithm writes through its SuggestDecision; a surplus suggestion is queued then taken back
          env = {'md_study': tuple((ns, k, v) for sc, ns, k, v in a[1] if sc == 'S'),
                 'md_trials': tuple((sc, ns, k, v) for sc, ns, k, v in a[1] if sc != 'S')}
          cls, view, raw = svc.apply(b, ('SuggestTrials', 's', 'algo', 1, ('env',) + tuple(sorted(env.items()))))
          if cls != 'OK' or view[3]:
            err = RuntimeError('suggest failed: %s %s' % (cls, view))
          else:
            tid = int(dict(view[4][0])['id'])
            svc.apply(b, ('DeleteTrial', 's', tid))
        elif kind == 'complete':
          cls, view, raw = svc.apply(b, ('CompleteTrial', 's', a[1], 'final'))
      except Exception as e:  # pylint: disable=broad-except
        err = e
      outcomes.append(type(err).__name__ if err else 'OK')
    # reference map
    entries = []
    if kind == 'user':
      entries = [a[1:]]
    elif kind in ('multi', 'algo'):
      entries = list(a[1])
    present = {'S', 1, 2}
    if any(e[0] not in present for e in entries):
      expect_fail = True
    else:
      for scope, ns, key, val in entries:
        want[(scope, ns, key)] = self._mval(val)
    self._last = outcomes[0]
    for b in self.bs:
      if b.pending_transaction():
        vios.append(self._v('uncommitted-transaction-after-call', a, '[%s] the update was acknowledged but its SQL transaction is still open: it is not durable, and the next rollback undoes it' % b.kind))
        b.settle()
    for i, b in enumerate(self.bs):
      got = self._read(i)
      failed = outcomes[i] != 'OK'
      if expect_fail and not failed:
        vios.append(self._v('failed-update-reported', a, '[%s] update naming a missing trial reported no error' % b.kind))
      if not expect_fail and failed:
        vios.append(self._v('update-error', a, '[%s] valid update failed with %s' % (b.kind, outcomes[i])))
      if got != want:
        missing = {k: v for k, v in want.items() if got.get(k) != v}
        extra = {k: v for k, v in got.items() if k not in want}
        clause = 'failed-update-changes-nothing' if expect_fail else 'map-readback'
        cls_ = 'ns-component-ends-with-backslash' if any(any(c.endswith('\\') for c in k[1]) for k in list(missing) + list(extra) + [e[:3] for e in entries]) else 'plain'
        vios.append(self._v(clause + ':' + cls_, a, '[%s] read-back differs from the last-writer-wins map: missing/wrong %s, unexpected %s'
                            % (b.kind, dict(list(missing.items())[:3]), dict(list(extra.items())[:3]))))
    self.map = want
    return vios

  def _v(self, clause, a, text):
    return {'sig': 'C10|%s|%s' % (clause, a[0]), 'desc': text, 'case': None}


def system(cfg):
  k = repr(sorted(cfg.items()))
  if k not in _SYS:
    _SYS[k] = MetaSystem(cfg)
  return _SYS[k]


def expand(task):
  return statespace.expand_paths(system(task['cfg']), task['paths'])


def fresh_objects_shard(task):
  """Two studies are two stores: metadata written to one object (in every way the API offers) must not show on another object of
  the same kind that was created without metadata - in Python, and for studies created one after the other through the service."""
  from vizier import pythia
  from vizier import pyvizier as vz
  from vizier.service import pyvizier as svz
  from vizier._src.service import clients, study_pb2, vizier_client
  vios, n = {}, 0

  def V(kind, how, text):
    sig = 'C10|metadata-shared-between-objects|%s' % kind
    vios.setdefault(sig, {'sig': sig, 'desc': '%s, written by %s: %s' % (kind, how, text), 'case': {'part': 'F'}})
  MAKE = {
      'ProblemStatement': lambda: vz.ProblemStatement(),
      'StudyConfig': lambda: svz.StudyConfig(),
      'Trial': lambda: vz.Trial(),
      'TrialSuggestion': lambda: vz.TrialSuggestion(),
      'MetadataDelta.on_study': lambda: vz.MetadataDelta(),
      'Metadata': lambda: vz.Metadata(),
  }
  WRITE = {
      'item assignment': lambda md: md.__setitem__('k', 'v'),
      'namespace view': lambda md: md.ns('a').ns('b').__setitem__('k', 'v'),
      'abs_ns view': lambda md: md.abs_ns(vz.Namespace(('x',))).__setitem__('k', 'v'),
      'update': lambda md: md.update({'k2': 'w'}),
      'attach': lambda md: md.ns('t').attach(vz.Metadata({'k3': 'u'})),
  }

  def md_of(o):
    return o if isinstance(o, vz.Metadata) else (o.on_study if hasattr(o, 'on_study') else o.metadata)

  def entries(md):
    return sorted((tuple(ns), k) for ns in md.namespaces() for k in md.abs_ns(ns))
  for kind, mk in MAKE.items():
    for how, wr in WRITE.items():
      n += 1
      before = mk()
      a = mk()
      wr(md_of(a))
      after = mk()
      for label, o in (('an object created earlier', before), ('an object created afterwards', after)):
        if entries(md_of(o)):
          V(kind, how, '%s shows %s' % (label, entries(md_of(o))))
  # in-RAM studies: what the algorithm of study A writes must not appear in study B
  for order in ('B-after', 'B-before'):
    n += 1
    def prob():
      p = vz.ProblemStatement()
      p.search_space.root.add_float_param('x', 0.0, 1.0)
      p.metric_information.append(vz.MetricInformation('m', goal=vz.ObjectiveMetricGoal.MAXIMIZE))
      return p
    sb = pythia.InRamPolicySupporter(prob()) if order == 'B-before' else None
    sa = pythia.InRamPolicySupporter(prob())
    d = vz.MetadataDelta()
    d.on_study.ns('algo')['state'] = 'of-study-A'
    sa.SendMetadata(d) if hasattr(sa, 'SendMetadata') else None
    sb = sb or pythia.InRamPolicySupporter(prob())
    got = entries(sb.study_config.metadata) if hasattr(sb, 'study_config') else []
    if got:
      V('InRamPolicySupporter study', 'the algorithm of another study (%s)' % order, 'study B shows %s' % got)
  # through the service: study C gets metadata at creation, study D is created from a brand-new configuration
  for kind in task['backends']:
    n += 1
    b = svc.Backend(kind)

    def cfg():
      c = svz.StudyConfig(algorithm='SCRIPTED')
      c.search_space.root.add_float_param('x', 0.0, 1.0)
      c.metric_information.append(vz.MetricInformation('m', goal=vz.ObjectiveMetricGoal.MAXIMIZE))
      return c
    cc = cfg()
    cc.metadata.ns('user')['owner-note'] = 'study C only'
    b.servicer.CreateStudy(svc.vs.CreateStudyRequest(parent=svc.OWNER, study=study_pb2.Study(display_name='c', study_spec=cc.to_proto())))
    cd = cfg()
    st = b.servicer.CreateStudy(svc.vs.CreateStudyRequest(parent=svc.OWNER, study=study_pb2.Study(display_name='d', study_spec=cd.to_proto())))
    got = [(kv.ns, kv.key) for kv in b.servicer.GetStudy(svc.vs.GetStudyRequest(name=st.name)).study_spec.metadata]
    if got:
      V('studies created through the service', 'metadata given to the study created before it', '[%s] GetStudy of the second study shows %s' % (kind, got))
    b.close()
  return {'n': n, 'violations': list(vios.values())}


def run(ctx):
  # ---- part A
  if ctx.quick:
    maxlen, maxcomp = 2, 3
  else:
    maxlen, maxcomp = 3, 3
  strs = strings(maxlen)
  shards = [strs[i::32] for i in range(32)]
  tasks = [{'firsts': sh, 'maxlen': maxlen, 'maxcomp': maxcomp, 'first_shard': i == 0, 'return_enc': True} for i, sh in enumerate(shards) if sh]
  total = 0
  enc = {}
  coll_classes = set()
  for r in ctx.pmap('codec_shard', tasks):
    total += r['n']
    ctx.extend(r['violations'])
    for e, pre in r['enc'].items():
      lst = enc.setdefault(e, [])
      for p in pre:
        if p not in lst:
          lst.append(p)
  collisions = 0
  for e, pre in enc.items():
    if len(pre) > 1:
      collisions += 1
      c = _classify(tuple(pre[0])) if any(x.endswith('\\') for x in pre[0]) else _classify(tuple(pre[1]))
      if c not in coll_classes:
        coll_classes.add(c)
        ctx.violation('C10|ns-injectivity|' + c, 'encode(%r) == encode(%r) == %r' % (tuple(pre[0]), tuple(pre[1]), e),
                      {'part': 'A', 'ns': pre[0], 'ns2': pre[1]})
  cov = {'codec_tuples': total, 'codec_distinct_encodings': len(enc), 'codec_collisions': collisions,
         'codec_bound': 'components of length <= %d over %s, <= %d components' % (maxlen, CH, maxcomp)}
  for r in ctx.pmap('fresh_objects_shard', [{'backends': ['ram', 'sqlmem']}]):
    total += r['n']
    ctx.extend(r['violations'])
  # ---- part B
  if ctx.quick:
    plans = [({'backends': ['ram', 'sqlmem'], 'scopes': ['S', 1], 'ns': [0, 1, 3], 'vals': [0, 1, 3], 'max_entries': 3}, 2),
             ({'backends': ['ram'], 'scopes': ['S', 1, 2], 'ns': [0, 1, 2, 3, 4], 'vals': [1, 2], 'max_entries': 2}, 3),
             # value-kind transitions on one cell: str <-> proto, proto -> empty-payload proto, proto type change
             ({'backends': ['ram', 'sqlmem'], 'scopes': ['S', 1], 'ns': [0, 1], 'vals': [0, 1, 3, 4, 5, 6], 'max_entries': 1}, 3)]
  else:
    plans = [({'backends': ['ram', 'sqlmem'], 'scopes': ['S', 1, 2], 'ns': [0, 1, 2, 3, 4], 'vals': [0, 1, 2, 3], 'max_entries': 3}, 3),
             ({'backends': ['ram', 'sqlmem'], 'scopes': ['S', 1], 'ns': [0, 1], 'vals': [0, 1, 3, 4, 5, 6], 'max_entries': 2}, 4),
             ({'backends': ['ram'], 'scopes': ['S', 1], 'ns': [0, 1, 3], 'vals': [1, 2, 3], 'max_entries': 3}, 4)]
  cov.update({'states': 0, 'transitions': 0, 'traces_validated_against_impl': 0, 'samples': [], 'runs': [], 'exhaustive': True})
  for cfg, depth in plans:
    s = statespace.Search(ctx, 'expand', depth, cfg, chunk=8)
    fp = s.run()
    c = s.coverage(fp)
    if c['snapshot_vs_replay_mismatches']:
      from vfw.runner import HarnessError
      raise HarnessError('snapshot/replay mismatch in %s' % cfg)
    for k in ('states', 'transitions', 'traces_validated_against_impl'):
      cov[k] += c[k]
    cov['samples'] += c.pop('samples')[:3]
    cov['exhaustive'] = cov['exhaustive'] and c['exhaustive']
    c['cfg'] = cfg
    cov['runs'].append(c)
  cov['samples'].append({'codec': [['a\\', 'b'], ['a:b']]})
  return cov


def replay(case, ctx):
  if case.get('detail') is None and case.get('part') == 'A':
    from vizier import pyvizier as vz
    ns = tuple(case['ns'])
    out = []
    if tuple(vz.Namespace.decode(vz.Namespace(ns).encode())) != ns:
      out.append({'sig': 'C10|ns-roundtrip|' + _classify(ns), 'desc': 'roundtrip fails for %r' % (ns,), 'case': case})
    if 'ns2' in case and vz.Namespace(ns).encode() == vz.Namespace(tuple(case['ns2'])).encode():
      out.append({'sig': 'C10|ns-injectivity|' + _classify(ns), 'desc': 'collision', 'case': case})
    return out
  from props import c01
  sysm = system(case['cfg'])
  sysm.reset()
  for a in case['path']:
    sysm.apply(c01._t(a))
  return sysm.apply(c01._t(case['action']))
