"""C04 concurrent clients: every interleaving (lock acquisitions + datastore calls, preemption-bounded)
of 2-3 RPCs on the same study must be equivalent to some serial order of the same calls."""
import itertools

from vfw import lifecycle, sched, svc

LEVEL = 'model_checking'
ASSUMPTIONS = [
    'scheduling granularity: servicer lock acquisitions and datastore method entries; each datastore call is atomic (it holds the datastore leaf lock)',
    'preemption-bounded (bound reported per scenario); executions always run to completion',
    'the serial reference outcomes are computed by running the same calls sequentially, in every permutation, on the real code',
    'early-stopping yes/no answers are not compared',
    'the scripted algorithm labels its suggestions from its own call counter (not from the trials it can see), as real policies do not depend on queued REQUESTED trials',
]

PREFIXES = {
    'empty': [],
    'study': [('CreateStudy', 's')],
    'active1': [('CreateStudy', 's'), ('SuggestTrials', 's', 'a', 1)],
    'req+active': [('CreateStudy', 's'), ('SuggestTrials', 's', 'a', 1), ('CreateTrial', 's', 'requested', 0.25)],
    'done+active+md': [('CreateStudy', 's'), ('SuggestTrials', 's', 'a', 2), ('CompleteTrial', 's', 1, 'final'),
                       ('UpdateMetadata', 's', ((None, '', 'k0', 'v0'), (2, '', 'k0', 'v0')))],
    'req2': [('CreateStudy', 's'), ('CreateTrial', 's', 'requested', 0.25), ('CreateTrial', 's', 'requested', 0.5)],
}
RPCS = {
    'SugA1': ('SuggestTrials', 's', 'a', 1),
    'SugA2': ('SuggestTrials', 's', 'a', 2),
    'SugB1': ('SuggestTrials', 's', 'b', 1),
    'Create': ('CreateTrial', 's', 'requested', 0.75),
    'Complete1': ('CompleteTrial', 's', 1, 'final'),
    'Measure1': ('AddTrialMeasurement', 's', 1, 0.5),
    'Stop1': ('StopTrial', 's', 1),
    'Delete1': ('DeleteTrial', 's', 1),
    'Delete2': ('DeleteTrial', 's', 2),
    'DeleteStudy': ('DeleteStudy', 's'),
    'MdStudy': ('UpdateMetadata', 's', ((None, '', 'k', 'v'),)),
    'MdStudy2': ('UpdateMetadata', 's', ((None, '', 'k2', 'w'),)),
    'MdTrial1': ('UpdateMetadata', 's', ((1, '', 'k', 'v'),)),
    'MdTrial2': ('UpdateMetadata', 's', ((2, '', 'k', 'v'),)),
    'Inactive': ('SetStudyState', 's', 'INACTIVE'),
    'CreateStudy': ('CreateStudy', 's'),
    'EarlyStop1': ('CheckTrialEarlyStoppingState', 's', 1),
    'Complete2': ('CompleteTrial', 's', 2, 'final'),
    # calls whose datastore operation ends in a rollback (a second study of an existing owner; metadata for a missing trial)
    'CreateStudyT': ('CreateStudy', 't'),
    'MdMissing': ('UpdateMetadata', 's', ((9, '', 'k', 'v'),)),
}
_B = {}


def backend(kind):
  if kind not in _B:
    import os
    import tempfile
    path = None
    if kind == 'sqlfile':
      path = os.path.join(tempfile.mkdtemp(prefix='c04-', dir=svc.scratch()), 'v.db')
    b = svc.Backend(kind, path=path)
    sched.instrument(b.servicer)
    _B[kind] = (b, b.snapshot())
  return _B[kind]


def _renumber(x, mp):
  if isinstance(x, tuple):
    if len(x) == 2 and isinstance(x[0], str):
      k, v = x
      if k == 'id' and v in mp:
        return (k, mp[v])
      if k == 'name' and isinstance(v, str) and '/trials/' in v and v.rsplit('/', 1)[1] in mp:
        return (k, v.rsplit('/', 1)[0] + '/' + mp[v.rsplit('/', 1)[1]])
      if k == 'ids' and isinstance(v, tuple):
        return (k, tuple(mp.get(i, i) for i in v))
    return tuple(_renumber(y, mp) for y in x)
  return x


def _new_ids(results, canon, old_ids):
  """Ids of trials created during the run and still stored (a reused id counts: it is a new trial)."""
  ids = set()
  for s, ts in dict(canon)['trials']:
    ids |= {dict(t)['id'] for t in ts}
  created = {n.rsplit('/', 1)[1] for n in _CREATED}
  return sorted((i for i in ids if i not in old_ids or i in created), key=int)


_CREATED = []
_OLD_OPS = set()


def _apply_map(results, canon, mp):
  res = []
  for cls, view in results:
    if view and view[0] == 'EarlyStop':
      view = ('EarlyStop',)
    res.append((cls, _renumber(view, mp)))
  d = dict(canon)
  d['es'] = tuple(tuple((k, v) for k, v in e if k != 'stop') for e in d['es'])
  # operation records that existed before the run refer to the trials of that time: never renumbered
  ops = []
  for s_, c_, lst in d['ops']:
    lst2 = []
    for o in lst:
      od = dict(o)
      if od['name'] in _OLD_OPS and od['ids'] is not None:
        od['ids'] = tuple('old:' + i for i in od['ids'])
      lst2.append(svc.freeze(od))
    ops.append((s_, c_, tuple(lst2)))
  d['ops'] = tuple(ops)
  d = dict(_renumber(svc.freeze(d), mp))
  # trials were sorted by numeric id: re-sort by the new labels
  d['trials'] = tuple((s, tuple(sorted(ts, key=lambda t: str(dict(t)['id'])))) for s, ts in d['trials'])
  return (tuple(res), svc.freeze(d))


def _norm(results, canon, old_ids):
  """Canonical labels N0.. for trials created during the run (order-preserving); early-stop booleans dropped."""
  new = _new_ids(results, canon, old_ids)
  return _apply_map(results, canon, {i: 'N%d' % k for k, i in enumerate(new)})


def _norm_all(results, canon, old_ids):
  """All renumberings (bijections) of the trials created during the run - the property allows any."""
  new = _new_ids(results, canon, old_ids)
  labels = ['N%d' % k for k in range(len(new))]
  for perm in itertools.permutations(labels):
    yield _apply_map(results, canon, dict(zip(new, perm)))


def _kinds(sc):
  return '+'.join(sorted(RPCS[r][0] for r in sc['rpcs']))


def _id_reused(trace):
  """(deleter thread, creator thread) when a trial name deleted during the run is created again in the same run."""
  deleted = {}
  for tid, what in trace:
    if what.startswith('ds.delete_trial:'):
      deleted[what.split(':', 1)[1]] = tid
    if what.startswith('ds.create_trial:') and what.split(':', 1)[1] in deleted:
      return (deleted[what.split(':', 1)[1]], tid)
  return None


def _for_study(a, study):
  """The same action on another study id."""
  return a if study == 's' or len(a) < 2 or a[1] != 's' else (a[0], study) + tuple(a[2:])


def run_scenario(sc):
  """Worker: explores one scenario. sc = dict(kind, prefix, rpcs, bound, max_schedules[, study])."""
  study = sc.get('study', 's')
  b, empty = backend(sc['kind'])
  _canon = b.canon
  b.canon = lambda: _canon(studies=(study,))
  try:
    return _run_scenario(sc, b, empty, study)
  finally:
    del b.canon


def _run_scenario(sc, b, empty, study):
  b.restore(empty)
  sched.reset_locks(b.servicer)
  svc.CLOCK.now = svc.BASE_T
  b.env.__init__()
  for a in PREFIXES[sc['prefix']]:
    svc.apply(b, _for_study(a, study))
  snap = b.snapshot()
  pre = b.canon()
  old_ids = set()
  for s, ts in dict(pre)['trials']:
    old_ids |= {dict(t)['id'] for t in ts}
  _OLD_OPS.clear()
  for s_, c_, lst in dict(pre)['ops']:
    _OLD_OPS.update(dict(o)['name'] for o in lst)
  acts = [_for_study(RPCS[r], study) for r in sc['rpcs']]
  # serial reference outcomes (every permutation, real code)
  serial = {}
  for perm in itertools.permutations(range(len(acts))):
    b.restore(snap)
    sched.reset_locks(b.servicer)
    b.env.label_seq = 0
    b.servicer.datastore.created[:] = []
    res = [None] * len(acts)
    for i in perm:
      res[i] = svc.call(b, acts[i])
    _CREATED[:] = list(b.servicer.datastore.created)
    serial[_norm(res, b.canon(), old_ids)] = perm
  vios = []
  outcomes = {}
  stats = {'deadlocks': 0, 'horizon': 0}

  def execute(choices):
    b.restore(snap)
    sched.reset_locks(b.servicer)
    b.env.label_seq = 0
    b.servicer.datastore.created[:] = []
    bodies = [(lambda a=a: svc.call(b, a)) for a in acts]
    try:
      res, points, trace = sched.run_schedule(bodies, choices)
    except sched.Deadlock as e:
      stats['deadlocks'] += 1
      return ('DEADLOCK', repr(e)), _points_of_failed()
    except sched.Horizon:
      stats['horizon'] += 1
      return ('HORIZON',), _points_of_failed()
    return (res, b.canon(), trace, list(b.servicer.datastore.created)), points

  last = {}

  def _points_of_failed():
    return last.get('points', [])

  def on_result(taken, outcome):
    if outcome[0] in ('DEADLOCK', 'HORIZON'):
      vios.append({'sig': 'C04|%s|%s' % (outcome[0].lower(), _kinds(sc)),
                   'desc': '[%s] %s under schedule %s' % (sc['kind'], outcome, taken),
                   'case': dict(sc, schedule=taken)})
      return
    res, canon, trace, created = outcome
    _CREATED[:] = created
    for r in res:
      if r and r[0] == 'THREAD-EXC':
        vios.append({'sig': 'C04|thread-exception|%s' % _kinds(sc),
                     'desc': '[%s] %s' % (sc['kind'], r), 'case': dict(sc, schedule=taken)})
        return
    key = _norm(res, canon, old_ids)
    outcomes[key] = outcomes.get(key, 0) + 1
    if key not in serial and not any(k in serial for k in _norm_all(res, canon, old_ids)):
      classes = [r[0] for r in res]
      reuse = _id_reused(trace)
      clause = 'not-serializable:id-reused-after-delete' if reuse else 'not-serializable'
      kinds = '+'.join(sorted({RPCS[sc['rpcs'][t]][0] for t in reuse})) if reuse else _kinds(sc)
      vios.append({'sig': 'C04|%s|%s' % (clause, kinds),
                   'desc': '[%s prefix=%s] schedule %s gives response classes %s and a final state that no serial order of %s produces; trace=%s'
                           % (sc['kind'], sc['prefix'], taken, classes, sc['rpcs'], [t for t in trace][:40]),
                   'case': dict(sc, schedule=taken)})
    for clause, text in lifecycle.invariants(canon):
      vios.append({'sig': 'C04|invariant:%s|%s' % (clause, _kinds(sc)),
                   'desc': '[%s] %s under schedule %s' % (sc['kind'], text, taken), 'case': dict(sc, schedule=taken)})

  n, capped = sched.explore(execute, sc['bound'], on_result, sc.get('max_schedules'))
  # determinism self-test: replay the default schedule twice
  o1, _ = execute([])
  o2, _ = execute([])
  _CREATED[:] = []
  nondet = (o1[0] not in ('DEADLOCK', 'HORIZON')) and (_norm(o1[0], o1[1], old_ids) != _norm(o2[0], o2[1], old_ids))
  return {'scenario': sc, 'schedules': n, 'capped': capped, 'serial_outcomes': len(serial), 'outcomes': len(outcomes),
          'violations': vios[:50], 'n_violations': len(vios), 'nondeterministic': nondet, 'stats': stats}


def scenarios(ctx):
  names = list(RPCS)
  out = []
  if ctx.quick:
    kinds, bound, prefs = ['ram'], 1, ['study', 'active1', 'req+active', 'done+active+md']
  else:
    kinds, bound, prefs = ['ram', 'sqlmem'], 2, list(PREFIXES)
  for kind in kinds:
    for p in prefs:
      for pair in itertools.combinations_with_replacement(names, 2):
        if p == 'empty' and set(pair) != {'CreateStudy'}:
          continue
        out.append({'kind': kind, 'prefix': p, 'rpcs': list(pair), 'bound': bound})
  if ctx.quick:
    out.append({'kind': 'ram', 'prefix': 'empty', 'rpcs': ['CreateStudy', 'CreateStudy'], 'bound': 2})
    out.append({'kind': 'sqlmem', 'prefix': 'empty', 'rpcs': ['CreateStudy', 'CreateStudy'], 'bound': 2})
    # a study whose id ends in a blank (an unstripped line of a config file): every pair of a study-level and a trial-level call
    study_level = ['SugA1', 'SugB1', 'Create', 'MdStudy', 'MdTrial1', 'Inactive', 'DeleteStudy']
    trial_level = ['Complete1', 'Measure1', 'Stop1', 'Delete1', 'EarlyStop1']
    for p in ('active1', 'req+active'):
      for x in study_level:
        for y in trial_level:
          out.append({'kind': 'ram', 'prefix': p, 'rpcs': [x, y], 'bound': 1, 'study': 's '})
    # the SQL datastore (one shared connection, one open transaction): every pair once more on two prefixes
    for p in ('study', 'req+active'):
      for pair in itertools.combinations_with_replacement(names, 2):
        out.append({'kind': 'sqlmem', 'prefix': p, 'rpcs': list(pair), 'bound': 1})
  else:
    triples = [('SugA1', 'SugB1', 'Create'), ('SugA1', 'Complete1', 'MdTrial1'), ('Create', 'Create', 'SugA2'),
               ('Inactive', 'MdStudy', 'MdStudy2'), ('Delete1', 'SugB1', 'Create'), ('SugA1', 'SugA1', 'SugB1'),
               ('Complete1', 'Stop1', 'Measure1'), ('DeleteStudy', 'SugA1', 'CreateStudy'), ('EarlyStop1', 'SugB1', 'Complete1'),
               ('MdStudy', 'MdStudy2', 'MdTrial1'), ('Complete1', 'Delete1', 'EarlyStop1'), ('SugA2', 'SugB1', 'Delete2')]
    for kind in kinds:
      for p in ('active1', 'req+active', 'done+active+md'):
        for t in triples:
          out.append({'kind': kind, 'prefix': p, 'rpcs': list(t), 'bound': 2, 'max_schedules': 20000})
  return out


def run(ctx):
  scs = scenarios(ctx)
  total = 0
  states = 0
  vac = []
  samples = []
  capped = 0
  per = []
  for r in ctx.pmap('run_scenario', scs):
    total += r['schedules']
    states += r['outcomes']
    if r['nondeterministic']:
      from vfw.runner import HarnessError
      raise HarnessError('non-deterministic replay in %s' % r['scenario'])
    if r['capped']:
      capped += 1
    if r['outcomes'] <= 1 and r['serial_outcomes'] > 1:
      vac.append('%s/%s' % (r['scenario']['prefix'], '+'.join(r['scenario']['rpcs'])))
    for v in r['violations']:
      ctx.violations.append(v)
    if len(samples) < 5 and r['outcomes'] > 1:
      samples.append({'scenario': r['scenario'], 'schedules': r['schedules'], 'distinct_outcomes': r['outcomes'],
                      'serial_outcomes': r['serial_outcomes']})
    per.append((r['scenario']['kind'], r['scenario']['prefix'], '+'.join(r['scenario']['rpcs']), r['schedules'], r['outcomes'], r['serial_outcomes']))
  return {
      'states': max(states, 1), 'transitions': total, 'traces_validated_against_impl': total,
      'schedules': total, 'scenarios': len(scs), 'scenarios_capped': capped,
      'preemption_bound': max(s['bound'] for s in scs),
      'scenarios_with_single_outcome_although_serial_orders_differ': vac[:40],
      'exhaustive': capped == 0,
      'samples': samples or [{'scenario': scs[0]}],
      'explanation': 'states = sum over scenarios of distinct (responses, final state) outcomes observed; transitions = schedules executed to completion',
  }


def replay(case, ctx):
  sc = {k: case[k] for k in ('kind', 'prefix', 'rpcs', 'bound')}
  r = run_scenario(dict(sc, max_schedules=case.get('max_schedules')))
  return r['violations']
